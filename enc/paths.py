"""Enumeration of all feasible paths of a harness script (Real order), by re-execution with forced decision prefixes."""
import z3
from . import dag as D, real as R


class _NL:
    """non-incremental stand-in for z3.Solver: a fresh QF_NRA (nlsat) solver per check (the incremental core answers
    unknown on non-linear path conditions)"""

    def __init__(self, timeout):
        self.fs, self.stack, self.timeout, self._m = [], [], timeout, None

    def set(self, *a):
        pass

    def add(self, f):
        self.fs.append(f)

    def push(self):
        self.stack.append(len(self.fs))

    def pop(self):
        del self.fs[self.stack.pop():]

    def check(self):
        s = z3.SolverFor('QF_NRA')
        s.set('timeout', self.timeout * 1000)
        for f in self.fs:
            s.add(f)
        r = s.check()
        self._m = s.model() if r == z3.sat else None
        return r

    def model(self):
        return self._m


class Explorer:
    def __init__(self, tu, script, assume, enc_kwargs=None, max_paths=4096, int_choices=None, timeout=30, logic=None, nonlinear=False, budget_s=None):
        """assume(enc) -> list of z3 formulas (domain assumptions) for a freshly built encoder of a run."""
        self.tu, self.script, self.assume = tu, script, assume
        self.enc_kwargs = enc_kwargs or {}
        self.max_paths = max_paths
        self.int_choices = list(int_choices) if int_choices is not None else []
        self.timeout = timeout
        self.runs = 0
        self.queries = 0
        self.complete = True
        self.unknown = 0
        self.logic = logic
        self.nonlinear = nonlinear
        self.budget_s = budget_s

    def paths(self):
        """yields (decisions, dag, enc, model_shadows) for every feasible complete path"""
        import time as _t
        work = [([], None)]
        seen = set()
        npaths = 0
        t_start = _t.time()
        while work:
            if self.budget_s is not None and _t.time() - t_start > self.budget_s:
                self.complete = False
                return
            prefix, shadows = work.pop()
            key = tuple(prefix)
            if key in seen:
                continue
            seen.add(key)
            g = D.run(self.tu, self.script.text(prefix, shadows))
            self.runs += 1
            enc = R.Enc(g, **self.enc_kwargs)
            base = self.assume(enc) + list(enc.assumptions)
            s = _NL(self.timeout) if self.nonlinear else (z3.Solver() if self.logic is None else z3.SolverFor(self.logic))
            s.set('timeout', self.timeout * 1000)
            for f in base:
                s.add(f)
            forks = g.path
            outs = [f[3] for f in forks]
            feasible = True
            for j, f in enumerate(forks):
                fj = enc.path_formula(f)
                if j >= len(prefix):
                    alts = []
                    if f[0] in ('floorint', 'truncint'):
                        alts = [v for v in self.int_choices if v != f[3]]
                    else:
                        alts = [1 - f[3]]
                    for a in alts:
                        fa = enc.path_formula([f[0], f[1], f[2], a])
                        if z3.is_false(fa):
                            continue
                        s.push()
                        s.add(fa)
                        r = s.check()
                        self.queries += 1
                        if r == z3.sat:
                            m = s.model()
                            sh = self._shadows(m, g)
                            work.append((outs[:j] + [a], sh))
                        elif r == z3.unknown:
                            self.unknown += 1
                            self.complete = False
                        s.pop()
                if z3.is_false(fj):
                    feasible = False
                    break
                s.add(fj)
                if len(enc.assumptions) > 0:
                    for extra in enc.assumptions:
                        s.add(extra)
            if feasible:
                r = s.check()
                self.queries += 1
                if r == z3.sat:
                    npaths += 1
                    yield (outs, g, enc, self._shadows(s.model(), g))
                    if npaths >= self.max_paths:
                        self.complete = False
                        return
                elif r == z3.unknown:
                    self.unknown += 1
                    self.complete = False

    def _shadows(self, m, g):
        sh = {}
        for d in m.decls():
            nm = d.name()
            v = m[d]
            try:
                if z3.is_rational_value(v):
                    x = v.numerator_as_long() / v.denominator_as_long()
                elif z3.is_algebraic_value(v):
                    a = v.approx(20)
                    x = a.numerator_as_long() / a.denominator_as_long()
                else:
                    continue
            except Exception:
                continue
            if nm.startswith('inv_'):
                if x != 0:
                    sh[nm[4:]] = 1.0 / x
            else:
                sh[nm] = x
        return sh
