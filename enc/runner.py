"""Check driver: ./check <Cxx> [--tier quick|thorough] [--replay file]"""
import os, sys, json, time, importlib, argparse, random, glob
from . import build, dag as D, pool as P, ob as O

VERIF = build.VERIF
OKS = O.OK


def load_known():
    p = os.path.join(VERIF, 'known_findings.json')
    if not os.path.exists(p):
        return []
    return json.load(open(p)).get('findings', [])


CRASHES = []


def validate_translation(mod, tier, seed):
    """s3.4.1: recorder shadows vs native build, bit for bit, on the module's validation scripts."""
    n = 0
    mism = []
    for tu, script, decisions in mod.validation(tier, seed):
        try:
            a = D.run(tu, script.text(decisions))
            b = D.run(tu, script.text(decisions), native=True)
        except D.HarnessCrash as e:
            # the library code aborts (assertion / signal) on a plain valid scenario: confirm with the native build and report it
            import hashlib
            n += 1
            try:
                D.run(tu, script.text(None), native=True)
                native_crash, err2 = False, ''
            except D.HarnessCrash as e2:
                native_crash, err2 = True, e2.stderr
            if not native_crash and not e.native:
                mism.append({'tu': tu.name, 'out': '(recording build aborts, native build does not)', 'recorder': e.stderr[-300:], 'native': 'runs'})
                continue
            os.makedirs(O.REPLAY_DIR, exist_ok=True)
            body = {'kind': 'crash', 'property': getattr(mod, 'ID', ''), 'obligation': 'translator validation scenario :: library code aborts on a valid scenario',
                    'tu': O.tu_spec(tu), 'script': script.text(None), 'stderr': (err2 or e.stderr)[-600:]}
            h = hashlib.sha256(json.dumps(body, sort_keys=True).encode()).hexdigest()[:12]
            path = os.path.join(O.REPLAY_DIR, 'crash-%s.json' % h)
            json.dump(body, open(path, 'w'), indent=1)
            CRASHES.append({'name': body['obligation'] + ' (' + tu.name + ')', 'kind': 'crash', 'status': 'sat', 't': 0, 'confirmed': True, 'replay': path,
                            'note': 'recording and native builds both abort: ' + (err2 or e.stderr)[-300:].replace('\n', ' ')})
            continue
        n += 1
        for k, v in a.outv.items():
            w = b.outv.get(k)
            if w is None or D.f2hex(v) != D.f2hex(w):
                if v != v and w != w:
                    continue
                mism.append({'tu': tu.name, 'out': k, 'recorder': D.f2hex(v), 'native': None if w is None else D.f2hex(w)})
        for k, v in a.ints.items():
            if b.ints.get(k) != v:
                mism.append({'tu': tu.name, 'int': k, 'recorder': v, 'native': b.ints.get(k)})
    return n, mism


def do_replay(path):
    body = json.load(open(path))
    if body.get('kind') == 'unconfirmed':
        print('replay of', body['obligation'])
        print('  ' + body['note'])
        print('NOT REPRODUCED NATIVELY (solver / structural evidence only)')
        return 1
    tu = O.tu_from_spec(body['tu'])
    build.ensure([tu])
    kind = body['kind']
    text = body['script']
    if body.get('decisions'):
        text = 'decisions ' + ' '.join(str(int(x)) for x in body['decisions']) + '\n' + text
    print('replay of', body['obligation'])
    try:
        nat = D.run(tu, text, native=True)
    except D.HarnessCrash as e:
        print('  native build aborts: ' + e.stderr[-400:])
        print('REPRODUCED')
        return 1
    if kind == 'real':
        got = nat.outv.get(body['lhs_out'])
        exp = D.hex2f(body['expected'])
        scale = max(1.0, abs(exp), abs(got) if got == got else 1.0)
        resid = abs(got - exp) / scale if got == got else float('inf')
        print('  native %s = %r   expected (exact arithmetic on the specification side) = %r   scaled residual = %.3e' % (body['lhs_out'], got, exp, resid))
        bad = resid > float(body.get('tol', 1e-6))      # beyond rounding (the solver's counterexamples are chosen with a large residual)
    elif kind == 'uf':
        a, b = nat.outv.get(body['out_a']), nat.outv.get(body['out_b'])
        print('  native %s = %s   %s = %s' % (body['out_a'], D.f2hex(a), body['out_b'], D.f2hex(b)))
        bad = D.f2hex(a) != D.f2hex(b)
    elif kind == 'crash':
        bad = False
    elif kind in ('formula', 'fp'):
        print('  ' + str(body.get('note')))
        print('  inputs: ' + ', '.join('%s=%r' % kv for kv in list(body.get('shadows', {}).items())[:16]))
        print('  native outputs: ' + ', '.join('%s=%r' % (k, v) for k, v in list(nat.outv.items())[:16]))
        exp = body.get('expect_native')
        bad = True
        if exp:
            got = nat.outv.get(exp['out'])
            bad = not eval(exp['cond'], {'x': got, 'nan': float('nan'), 'inf': float('inf'), 'isnan': lambda v: v != v})
            print('  condition %s on %s=%r: %s' % (exp['cond'], exp['out'], got, 'holds' if not bad else 'VIOLATED'))
    elif kind == 'int':
        got = nat.ints.get(body['key'])
        print('  native %s = %r expected %r' % (body['key'], got, body['expected']))
        bad = got != body['expected']
    else:
        print('  structural obligation: ' + str(body.get('note')))
        bad = True
    print('REPRODUCED' if bad else 'NOT REPRODUCED')
    return 1 if bad else 0


def main(argv=None):
    ap = argparse.ArgumentParser()
    ap.add_argument('prop')
    ap.add_argument('--tier', default=os.environ.get('VERIF_TIER', 'quick'))
    ap.add_argument('--replay')
    ap.add_argument('--jobs', type=int, default=int(os.environ.get('VERIF_JOBS', '16')))
    ap.add_argument('--only', default=None, help='substring filter on task names (debugging)')
    ap.add_argument('--no-evidence', action='store_true')
    a = ap.parse_args(argv)
    if a.replay:
        return do_replay(a.replay)
    tier = a.tier if a.tier in ('quick', 'thorough') else 'quick'
    seed = int(os.environ.get('VERIF_SEED', '0') or 0)
    t0 = time.time()
    mod = importlib.import_module('props.' + a.prop)
    for f in glob.glob(os.path.join(O.REPLAY_DIR, a.prop + '-*.json')) + glob.glob(os.path.join(O.REPLAY_DIR, 'crash-*.json')):
        try:
            os.unlink(f)
        except OSError:
            pass
    tus = mod.tus(tier)
    try:
        binfo = build.ensure(tus)
    except RuntimeError as e:
        # not a verdict about the property: the harness could not be compiled against the current headers
        print('CHECK-ERROR property=%s %s (see BUILD FAILED above): no verdict' % (a.prop, e))
        return 2
    typedef_warn = build.check_typedefs()
    for w in typedef_warn:
        print('WARNING untranslated scalar type in library text: ' + w)
    nval, mism = validate_translation(mod, tier, seed)
    for m in mism[:10]:
        print('TRANSLATOR-MISMATCH ' + json.dumps(m))
    tasks = mod.tasks(tier, seed)
    if a.only:
        tasks = [t for t in tasks if a.only in t['name']]
    hard = getattr(mod, 'HARD_TIMEOUT', {'quick': 400, 'thorough': 2400})[tier]
    pool = P.Pool(a.jobs, hard)
    last = [time.time()]

    def prog(d, n):
        if time.time() - last[0] > 20:
            last[0] = time.time()
            print('  ... %d/%d tasks' % (d, n), flush=True)
    stop = None
    if os.environ.get('VERIF_STOP_FIRST') == '1':
        # mutation-sweep mode only (never used by a registered command): stop dispatching tasks after the first confirmed, unlisted violation
        kn = [k['match'] for k in load_known() if k.get('property') == a.prop and k.get('match')]

        def stop(r):
            return bool(r) and r[0] == 'ok' and any(o.get('status') == 'sat' and o.get('confirmed') and not any(m in o['name'] for m in kn) for sc in r[1] for o in sc['results'])
    res = pool.run([('props.' + a.prop, t.get('fn', 'run_task'), t) for t in tasks], prog, stop)
    # ---------------------------------------------------------------- aggregate
    obs = list(CRASHES)
    scen = 0
    queries = 0
    solver_s = 0.0
    errors = []
    paths = 0
    for t, r in zip(tasks, res):
        if r is None and stop is not None:
            continue
        if r is None or r[0] == 'timeout':
            obs.append({'name': t['name'] + ' :: (task)', 'kind': 'task', 'status': 'unknown', 'detail': 'task exceeded hard timeout %ds' % hard})
            continue
        if r[0] == 'err':
            errors.append({'task': t['name'], 'error': r[1]})
            continue
        for sc in r[1]:
            scen += 1
            queries += sc.get('queries', 0)
            solver_s += sc.get('solver_s', 0)
            paths += 1
            obs.extend(sc['results'])
    counts = {}
    for o in obs:
        counts[o['status']] = counts.get(o['status'], 0) + 1
    known = [k for k in load_known() if k.get('property') == a.prop and k.get('status', 'open') == 'open']
    violations = []
    known_hits = []
    unconfirmed = []
    for o in obs:
        if o['status'] != 'sat':
            continue
        if not o.get('confirmed'):
            unconfirmed.append(o)
            continue
        hit = None
        for k in known:
            if k['match'] in o['name']:
                hit = k
                break
        if hit:
            known_hits.append((hit, o))
        else:
            violations.append(o)
    discharged = sum(counts.get(s, 0) for s in OKS)
    xc = {'sampled': 0, 'agree': 0, 'inconclusive': 0, 'disagree': []}
    for o in obs:
        x = o.get('xcheck')
        if not x:
            continue
        xc['sampled'] += 1
        for solver, ans in x.items():
            if ans == 'unsat':
                xc['agree'] += 1
            elif ans == 'sat':
                xc['disagree'].append({'obligation': o['name'], 'solver': solver})
            else:
                xc['inconclusive'] += 1
    hashes = set()
    for o in obs:
        if o['status'] == 'unsat' and not o.get('trivial') and o.get('h') is not None:
            hashes.add((o['kind'], o['h']))
    # ---------------------------------------------------------------- report
    seen = set()
    for k in known:
        if k.get('always') and k['match'] not in seen:      # findings about a part of the property the check does not decide: always listed
            seen.add(k['match'])
            print('KNOWN-FINDING: property=%s %s' % (a.prop, k.get('what', k['match'])))
    for k, o in known_hits:
        if k['match'] in seen:
            continue
        seen.add(k['match'])
        print('KNOWN-FINDING: property=%s %s' % (a.prop, k.get('what', k['match'])))
    for o in violations[:50]:
        print('VIOLATION property=%s replay=%s' % (a.prop, o.get('replay', 'none')))
        print('   obligation: %s' % o['name'])
        for key in ('note', 'expected', 'lhs_native', 'lhs_exact', 'resid_native', 'resid_exact', 'got', 'a', 'b'):
            if key in o:
                print('   %s: %r' % (key, o[key]))
    for o in unconfirmed[:20]:
        print('UNCONFIRMED property=%s obligation=%s note=%s' % (a.prop, o['name'], o.get('note')))
    for e in errors[:5]:
        print('TASK-ERROR %s\n%s' % (e['task'], e['error']))
    for dsg in xc['disagree'][:5]:
        print('SOLVER-DISAGREEMENT %s says sat where z3 %s said unsat: %s' % (dsg['solver'], z3_version(), dsg['obligation']))
    if (unconfirmed or errors or xc['disagree'] or mism) and not violations:
        # the run fails without a natively reproduced counterexample: still hand out a replay file that says what needs attention
        import hashlib
        what = (unconfirmed[0]['name'] + ' :: ' + str(unconfirmed[0].get('note'))) if unconfirmed else (('task error: ' + errors[0]['task']) if errors else ('translator / solver disagreement: ' + json.dumps((mism or xc['disagree'])[0])[:300]))
        body = {'kind': 'unconfirmed', 'property': a.prop, 'obligation': what, 'note': 'solver counterexample, structural difference or tool error that the native build did not reproduce as a numeric difference; '
                'the property is not shown to hold on this tree', 'model': (unconfirmed[0].get('model') if unconfirmed else None), 'tu': None, 'script': ''}
        os.makedirs(O.REPLAY_DIR, exist_ok=True)
        path = os.path.join(O.REPLAY_DIR, '%s-unconfirmed-%s.json' % (a.prop, hashlib.sha256(what.encode()).hexdigest()[:10]))
        json.dump(body, open(path, 'w'), indent=1, default=str)
        print('VIOLATION property=%s replay=%s' % (a.prop, path))
        print('   (not reproduced as a numeric difference by the native build: %s)' % what[:300])
    wall = time.time() - t0
    unknowns = [o for o in obs if o['status'] == 'unknown']
    print('%s tier=%s: %d obligations, %d discharged (%s), %d unknown, %d violations, %d known, %d unconfirmed, %d task errors; %d scenarios, %d solver queries, %.1fs solver, %.1fs wall'
          % (a.prop, tier, len(obs), discharged, ', '.join('%s=%d' % kv for kv in sorted(counts.items())), len(unknowns), len(violations), len(known_hits), len(unconfirmed), len(errors), scen, queries, solver_s, wall))
    slow = sorted([(r[2], t['name']) for t, r in zip(tasks, res) if r and len(r) > 2], reverse=True)[:5]
    print('   slowest tasks: ' + '; '.join('%s %.1fs' % (n, x) for x, n in slow))
    for o in unknowns[:8]:
        print('   not discharged: %s (%s)' % (o['name'], o.get('detail')))
    if not a.no_evidence and not a.only:
        samples = []
        for st in ('unsat', 'syntactic', 'int_ok', 'unknown', 'sat'):
            ss = [o for o in obs if o['status'] == st][:3]
            samples += [{'obligation': o['name'], 'kind': o['kind'], 'status': o['status'], 'solver_s': o.get('t', 0)} for o in ss]
        ev = {
            'property_id': a.prop, 'tier': tier, 'seed': seed, 'level': mod.LEVEL,
            'coverage': {
                'explanation': mod.EXPLANATION,
                'functions_encoded': mod.FUNCTIONS,
                'bounds': mod.bounds(tier),
                'outside_claim': mod.OUTSIDE,
                'obligations': len(obs), 'discharged': discharged,
                'by_status': counts,
                'not_discharged': [{'obligation': o['name'], 'reason': o.get('detail')} for o in unknowns[:40]],
                'scenarios_paths': scen, 'evaluations': max(1, queries + counts.get('syntactic', 0) + counts.get('int_ok', 0)),
                'distinct_nontrivial': len(hashes),
                'rule': 'one evaluation = one solver query (SMT unsat/sat) or one structural node-identity / concrete-int comparison on a symbolic run; distinct_nontrivial = solver-discharged obligations with pairwise distinct goal formulas (hash of the z3 goal), excluding goals closed by node identity or trivially false after encoding',
                'samples': samples,
                'solver_queries': queries, 'solver_time_s': round(solver_s, 2),
                'checker_cmd': './check %s --tier %s' % (a.prop, tier),
                'trusted_base': ['g++ 12.2 / Eigen 3.4 scalar paths', 'symx recorder (symx/sym.hpp)', 'Python encoder enc/real.py, enc/uf.py (validated per run)', 'z3 %s' % z3_version()],
                'translator_validation': {'scripts': nval, 'mismatches': len(mism), 'examples': mism[:5]},
                'solver_crosscheck': {'rule': 'a sample of the solver-discharged Real obligations of this run is exported to SMT-LIB2 and re-decided by /usr/bin/z3 4.8.12 and cvc5 (15 s each); inconclusive = timeout/unknown',
                                      'obligations_sampled': xc['sampled'], 'answers_unsat': xc['agree'], 'answers_inconclusive': xc['inconclusive'], 'disagreements': xc['disagree'][:5]},
                'build': binfo, 'typedef_warnings': typedef_warn[:5],
                'known_findings_hit': [k['match'] for k, _ in known_hits][:10],
                'task_errors': errors[:5],
                'exhaustive': False,
            },
            'assumptions': mod.ASSUMPTIONS,
            'wall_s': round(wall, 2),
            'violations': len(violations) + len(unconfirmed),
        }
        os.makedirs(os.path.join(VERIF, 'evidence'), exist_ok=True)
        with open(os.path.join(VERIF, 'evidence', a.prop + '.json'), 'w') as f:
            json.dump(ev, f, indent=1, default=str)
    if violations or unconfirmed or errors or xc['disagree'] or mism:
        return 1
    return 0


def z3_version():
    try:
        import z3
        return z3.get_version_string()
    except Exception:
        return '?'
