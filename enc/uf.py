"""UF interpretation: + - * / sqrt are uninterpreted; equal terms => bit-identical IEEE results.

Ground terms over the recorded DAG, with only IEEE-exact axioms: commutativity of add/mul,
mul(1.0,x)=x, sub(x,+0.0)=x.  The canonicaliser orients these as rewrite rules (sort commutative operands,
drop the unit) and hash-conses; the z3 QF_UF query is then issued over the canonical terms (one declared
function per operation, one constant per variable / literal / poison)."""
import z3
from . import dag as D


class UF:
    def __init__(self, dag, alias=None):
        """alias: node id -> node id known to hold the bit-identical value (equality tests that came out true on the recorded
        path); the aliased node is canonicalised as its target, so node identity is decided modulo these equalities."""
        self.dag = dag
        self.alias = alias or {}
        self.canon = {}
        self.table = {}
        self.terms = []

    def _intern(self, key):
        i = self.table.get(key)
        if i is None:
            i = len(self.terms)
            self.table[key] = i
            self.terms.append(key)
        return i

    def cid(self, i):
        c = self.canon.get(i)
        if c is not None:
            return c
        nodes = self.dag.nodes
        for j in self.dag.slice([i]):
            if j in self.canon:
                continue
            if j in self.alias and self.alias[j] != j:
                self.canon[j] = self.cid(self.alias[j])
                continue
            n = nodes[j]
            op = n[0]
            if op == D.CONST:
                c = self._intern(('c', n[1]))
            elif op == D.VAR:
                c = self._intern(('v', n[1]))
            elif op == D.POISON:
                c = self._intern(('p', n[1]))
            elif op in (D.ADD, D.MUL):
                a, b = self.canon[n[1]], self.canon[n[2]]
                one = self.table.get(('c', '0x1p+0'))
                if op == D.MUL and one is not None and a == one:
                    c = b
                elif op == D.MUL and one is not None and b == one:
                    c = a
                else:
                    if a > b:
                        a, b = b, a
                    c = self._intern((op, a, b))
            elif op == D.SUB:
                a, b = self.canon[n[1]], self.canon[n[2]]
                zero = self.table.get(('c', '0x0p+0'))
                if zero is not None and b == zero:
                    c = a
                else:
                    c = self._intern((op, a, b))
            elif op == D.DIV:
                c = self._intern((op, self.canon[n[1]], self.canon[n[2]]))
            else:
                c = self._intern((op, self.canon[n[1]]))
            self.canon[j] = c
        return self.canon[i]

    def same(self, i, j):
        return self.cid(i) == self.cid(j)

    # --- z3 cross-check over canonical terms
    def z3_all_equal(self, pairs, hyps=()):
        """pairs: [(node_i, node_j)] - returns list of bools decided by z3 QF_UF (unsat of a != b)."""
        S = z3.DeclareSort('F')
        f2 = {op: z3.Function(D.OPN[op], S, S, S) for op in (D.ADD, D.SUB, D.MUL, D.DIV)}
        f1 = {op: z3.Function(D.OPN[op], S, S) for op in (D.NEG, D.SQRT, D.ABS, D.FLOOR)}
        memo = {}

        def term(c):
            st = [c]
            while st:
                x = st[-1]
                if x in memo:
                    st.pop()
                    continue
                k = self.terms[x]
                if k[0] in ('c', 'v', 'p'):
                    memo[x] = z3.Const('%s_%s' % (k[0], k[1]), S)
                    st.pop()
                    continue
                args = k[1:]
                miss = [a for a in args if a not in memo]
                if miss:
                    st.extend(miss)
                    continue
                memo[x] = f2[k[0]](memo[args[0]], memo[args[1]]) if len(args) == 2 else f1[k[0]](memo[args[0]])
                st.pop()
            return memo[c]

        out = []
        s = z3.SolverFor('QF_UF')
        for (x, y) in hyps:      # equality tests of the recorded path that came out true: bit-equal operands
            s.add(term(self.cid(x)) == term(self.cid(y)))
        for (i, j) in pairs:
            a, b = term(self.cid(i)), term(self.cid(j))
            s.push()
            s.add(a != b)
            out.append(s.check() == z3.unsat)
            s.pop()
        return out

    def depends_on(self, i, pred):
        """does node i (syntactically) contain a var/poison leaf satisfying pred(kind, name)?"""
        nodes = self.dag.nodes
        for j in self.dag.slice([i]):
            n = nodes[j]
            if n[0] == D.VAR and pred('v', n[1]):
                return True
            if n[0] == D.POISON and pred('p', n[1]):
                return True
        return False
