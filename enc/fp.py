"""FP interpretation: IEEE-754 binary64, bit-precise.
 * comparison-only formulas (finiteness tests, thresholds, one subtraction): z3 QF_FP
 * arithmetic kernels (a recorded path of a few dozen nodes): printed as straight-line C and decided by CBMC"""
import os, re, subprocess, tempfile, time, hashlib
import z3
from . import dag as D, build

RUN_DIR = os.path.join(build.BUILD, 'fp')
F64 = z3.Float64()
RNE = z3.RNE()


# ---------------------------------------------------------------------- z3 QF_FP (comparison kernels)
class FPEnc:
    def __init__(self, dag):
        self.dag = dag
        self.memo = {}
        self.vars = {}

    def var(self, name):
        v = self.vars.get(name)
        if v is None:
            v = z3.FP('fp_' + name, F64)
            self.vars[name] = v
        return v

    def node(self, i):
        if i in self.memo:
            return self.memo[i]
        for j in self.dag.slice([i]):
            if j in self.memo:
                continue
            n = self.dag.nodes[j]
            op = n[0]
            m = self.memo
            if op == D.CONST:
                x = D.hex2f(n[1])
                if x != x:
                    m[j] = z3.fpNaN(F64)
                elif x == float('inf'):
                    m[j] = z3.fpPlusInfinity(F64)
                elif x == float('-inf'):
                    m[j] = z3.fpMinusInfinity(F64)
                else:
                    m[j] = z3.FPVal(x, F64)
            elif op == D.VAR:
                m[j] = self.var(n[1])
            elif op == D.ADD:
                m[j] = z3.fpAdd(RNE, m[n[1]], m[n[2]])
            elif op == D.SUB:
                m[j] = z3.fpSub(RNE, m[n[1]], m[n[2]])
            elif op == D.MUL:
                m[j] = z3.fpMul(RNE, m[n[1]], m[n[2]])
            elif op == D.DIV:
                m[j] = z3.fpDiv(RNE, m[n[1]], m[n[2]])
            elif op == D.NEG:
                m[j] = z3.fpNeg(m[n[1]])
            elif op == D.ABS:
                m[j] = z3.fpAbs(m[n[1]])
            elif op == D.SQRT:
                m[j] = z3.fpSqrt(RNE, m[n[1]])
            else:
                raise ValueError('op %d not supported in the FP interpretation' % op)
        return self.memo[i]

    def fork(self, f, outcome=None):
        kind, a, b, out = f
        if outcome is None:
            outcome = out
        if kind == 'lt':
            r = z3.fpLT(self.node(a), self.node(b))
        elif kind == 'le':
            r = z3.fpLEQ(self.node(a), self.node(b))
        elif kind == 'eq':
            r = z3.fpEQ(self.node(a), self.node(b))
        elif kind == 'fin':
            x = self.node(a)
            r = z3.Not(z3.Or(z3.fpIsInf(x), z3.fpIsNaN(x)))
        elif kind == 'nan':
            r = z3.fpIsNaN(self.node(a))
        elif kind == 'inf':
            r = z3.fpIsInf(self.node(a))
        else:
            raise ValueError(kind)
        return r if outcome else z3.Not(r)


def fp_solve(formulas, timeout_s=30):
    s = z3.SolverFor('QF_FP')
    s.set('timeout', int(timeout_s * 1000))
    for f in formulas:
        s.add(f)
    t = time.time()
    r = s.check()
    dt = time.time() - t
    if r == z3.sat:
        m = s.model()
        vals = {}
        for d in m.decls():
            v = m[d]
            if z3.is_fp(v):
                vals[d.name()[3:]] = _fpval(v)
        return 'sat', vals, dt
    return ('unsat' if r == z3.unsat else 'unknown'), None, dt


def _fpval(v):
    """python float of a z3 FP numeral"""
    if v.isNaN():
        return float('nan')
    if v.isInf():
        return float('-inf') if v.isNegative() else float('inf')
    import struct
    bits = ((1 << 63) if v.sign() else 0) | (v.exponent_as_long(True) << 52) | v.significand_as_long()
    return struct.unpack('<d', struct.pack('<Q', bits))[0]


# ---------------------------------------------------------------------- CBMC on emitted straight-line C
def emit_c(dag, roots, var_ranges, path, asserts, witness=False):
    """dag nodes reachable from roots / path operands -> C.  var_ranges: name -> (lo, hi) assumed (finite);
    path: list of forks assumed;  asserts: list of C expressions over n<id> / named outs."""
    need = set(roots)
    for f in path:
        for x in (f[1], f[2]):
            if x >= 0:
                need.add(x)
    ids = dag.slice(sorted(need))
    L = ['#include <math.h>', 'double nondet_double(void);', 'int main(void) {']
    for j in ids:
        n = dag.nodes[j]
        op = n[0]
        if op == D.CONST:
            x = D.hex2f(n[1])
            lit = 'NAN' if x != x else ('INFINITY' if x == float('inf') else ('-INFINITY' if x == float('-inf') else float(x).hex()))
            L.append('  double n%d = %s;' % (j, lit))
        elif op == D.VAR:
            L.append('  double n%d = nondet_double(); /* %s */' % (j, n[1]))
            lo, hi = var_ranges.get(n[1], (None, None))
            if lo is not None:
                L.append('  __CPROVER_assume(n%d >= %s && n%d <= %s);' % (j, float(lo).hex(), j, float(hi).hex()))
        elif op in (D.ADD, D.SUB, D.MUL, D.DIV):
            L.append('  double n%d = n%d %s n%d;' % (j, n[1], '+-*/'[op - D.ADD], n[2]))
        elif op == D.NEG:
            L.append('  double n%d = -n%d;' % (j, n[1]))
        elif op == D.SQRT:
            L.append('  double n%d = sqrt(n%d);' % (j, n[1]))
        elif op == D.ABS:
            L.append('  double n%d = fabs(n%d);' % (j, n[1]))
        elif op == D.FLOOR:
            L.append('  double n%d = floor(n%d);' % (j, n[1]))
        else:
            raise ValueError('op %d' % op)
    for f in path:
        kind, a, b, out = f
        if kind in ('lt', 'le', 'eq'):
            c = 'n%d %s n%d' % (a, {'lt': '<', 'le': '<=', 'eq': '=='}[kind], b)
        elif kind == 'fin':
            c = '(n%d - n%d == 0.0)' % (a, a)   # finite iff x - x == 0
        elif kind == 'nan':
            c = '(n%d != n%d)' % (a, a)
        else:
            continue
        L.append('  __CPROVER_assume(%s(%s));' % ('' if out else '!', c))
    if witness:
        L.append('  __CPROVER_assert(0, "witness: the end of the path is reachable");')
    else:
        for i, (msg, expr) in enumerate(asserts):
            L.append('  __CPROVER_assert(%s, "%s");' % (expr, msg.replace('"', "'")))
    L.append('  return 0;\n}')
    return '\n'.join(L) + '\n'


BACKENDS = [[], ['--sat-solver', 'cadical'], ['--external-sat-solver', 'kissat']]


def cbmc(ctext, timeout_s=60, backends=None):
    """returns (status, detail, seconds): status in success / failed / unknown"""
    os.makedirs(RUN_DIR, exist_ok=True)
    h = hashlib.sha256(ctext.encode()).hexdigest()[:16]
    path = os.path.join(RUN_DIR, 'k%s_%d.c' % (h, os.getpid()))
    with open(path, 'w') as f:
        f.write(ctext)
    t = time.time()
    last = 'no back end finished'
    try:
        for be in (backends if backends is not None else BACKENDS[:1]):
            try:
                r = subprocess.run(['cbmc', path, '--no-standard-checks', '--trace'] + be, capture_output=True, text=True, timeout=timeout_s)
            except subprocess.TimeoutExpired:
                last = 'timeout %ds (%s)' % (timeout_s, ' '.join(be) or 'minisat')
                continue
            out = r.stdout
            if 'VERIFICATION SUCCESSFUL' in out:
                return 'success', ' '.join(be) or 'minisat', time.time() - t
            if 'VERIFICATION FAILED' in out:
                vals = {}
                for m in re.finditer(r'^\s*(n\d+)=([^\s]+) \(', out, re.M):
                    vals.setdefault(m.group(1), m.group(2))
                failed = re.findall(r'\[main\.assertion\.\d+\].*?: FAILURE', out)
                return 'failed', {'values': vals, 'failed': failed[:4], 'backend': ' '.join(be) or 'minisat'}, time.time() - t
            last = 'cbmc: ' + (out[-300:] + r.stderr[-300:]).replace('\n', ' ')
    finally:
        try:
            os.unlink(path)
        except OSError:
            pass
    return 'unknown', last, time.time() - t
