"""Obligation collector used inside worker processes: one Scenario = one harness run (one path) of one TU."""
import os, json, time, hashlib, random
from fractions import Fraction
import z3
from . import dag as D, real as R, uf as U, build

REPLAY_DIR = os.environ.get('SYMX_REPLAY') or os.path.join(build.VERIF, 'replay')
NAME_SUFFIX = ['']     # set while a task is re-run on an alternative path
SEP_BUDGET = [6]       # per worker process: solver attempts to find an input that separates two structurally different computations
OK = ('unsat', 'syntactic', 'int_ok')


def tu_spec(tu):
    return {'src': tu.src, 'defs': tu.defs, 'name': tu.name}


def tu_from_spec(s):
    return build.TU(s['src'], s['defs'], s['name'])


def frac_of(s):
    if '/' in s:
        a, b = s.split('/')
        return Fraction(int(a), int(b))
    try:
        return Fraction(int(s))
    except ValueError:
        return Fraction(s.rstrip('?'))


class Scenario:
    def __init__(self, prop, name, tu, script, decisions=None, timeout=60, enc_kwargs=None, dag=None, shadow_override=None):
        self.prop, self.name, self.tu, self.script = prop, name + NAME_SUFFIX[0], tu, script
        self.base_name = name
        self.decisions = decisions
        self.timeout = timeout
        if D.SHADOW_OVERRIDE:
            shadow_override = dict({k: v for k, v in D.SHADOW_OVERRIDE.items() if k in script.shadows}, **(shadow_override or {}))
        self.shadow_override = shadow_override
        self.text = script.text(decisions, shadow_override)
        self.dag = dag if dag is not None else D.run(tu, self.text)
        self.enc_kwargs = enc_kwargs or {}
        self.enc = R.Enc(self.dag, **self.enc_kwargs)
        self.uf = U.UF(self.dag)
        self.assume = []          # z3 formulas (domain assumptions)
        self.post_subst = {}      # z3 var name -> Fraction, substituted into the final formulas (after AD)
        self.results = []
        self.queries = 0
        self.solver_time = 0.0
        self._path_cache = None

    # ------------------------------------------------------------------ assumptions
    def positive(self, names):
        for n in names:
            if n in self.enc.subst:
                continue
            if n in self.enc.inv_vars:
                self.assume.append(self.enc.var('inv_' + n) > 0)
            else:
                self.assume.append(self.enc.var(n) > 0)

    def path_formulas(self):
        if self._path_cache is None:
            self._path_cache = [self.enc.path_formula(f) for f in self.dag.path]
        return self._path_cache

    def base(self, with_path=True):
        return list(self.assume) + list(self.enc.assumptions) + (self.path_formulas() if with_path else [])

    # ------------------------------------------------------------------ recording
    MAX_REPLAYS = 2

    def capped(self):
        """after a couple of replayed violations in one scenario the remaining failing obligations are reported
        against the first replay instead of being replayed one by one"""
        conf = [r for r in self.results if r['status'] == 'sat' and r.get('confirmed') and r.get('replay')]
        if len(conf) >= self.MAX_REPLAYS:
            return conf[0]['replay']
        return None

    def _rec(self, name, kind, status, t=0.0, **kw):
        d = {'name': self.name + ' :: ' + name, 'kind': kind, 'status': status, 't': round(t, 3)}
        d.update(kw)
        self.results.append(d)
        return d

    # ------------------------------------------------------------------ Real equalities
    def real_eq(self, name, lhs_out, rhs, with_path=True, extra=(), lhs_val=None):
        """obligation: out `lhs_out` == Val rhs for every input satisfying the assumptions (and the path)."""
        a = lhs_val if lhs_val is not None else self.enc.out(lhs_out)
        goal = self.enc.ne_formula(a, rhs)
        fs = self.base(with_path) + list(extra) + [goal]
        if self.post_subst:
            zs = [(self.enc.var(k), R.Q(Fraction(v))) for k, v in self.post_subst.items()]
            fs = [z3.substitute(f, *zs) for f in fs]
            goal = fs[-1]
        pre = None
        if not z3.is_false(goal) and not z3.is_true(goal):
            pre = self.witness_search(fs[:-1], a, rhs, tries=2)   # cheap bug-finding shortcut; never decides "holds"
        if pre is not None:
            r = R.Result(name, 'sat', 0.0, model=pre, detail='witness by exact evaluation')
        else:
            r = R.solve(name, fs, self.timeout)
            self.queries += 1
            self.solver_time += r.t
        if r.status == 'unsat':
            xc = None
            if r.detail != 'trivial' and r.t > 0.002:
                xc = R.xcheck(fs)
            kw = {'xcheck': xc} if xc else {}
            return self._rec(name, 'real', 'unsat', r.t, h=goal.hash() if not z3.is_false(goal) else 0, trivial=(r.detail == 'trivial'), **kw)
        if r.status == 'unknown':
            m = self.witness_search(fs[:-1], a, rhs)
            if m is None:
                return self._rec(name, 'real', 'unknown', r.t, detail=r.detail)
            r.model = m
            r.detail = 'solver gave no verdict in time; concrete witness found by exact evaluation at a rational point'
        cap = self.capped()
        if cap:
            return self._rec(name, 'real', 'sat', r.t, confirmed=True, replay=cap, note='solver model found; not replayed individually (scenario already has replayed violations)')
        rep = self.confirm_real(name, lhs_out, a, rhs, fs, r.model)
        if self.enc.cuts and not rep.get('confirmed'):
            # a model of the CUT problem whose cut values are inconsistent with the real computation proves nothing (s2.4):
            # decide again with the cut variables tied to the nodes they replace
            ties = [self.enc.eq_formula(self.enc.vvar(nm), self.enc.node(nid, cut=False)) for nid, nm in self.enc.cuts.items() if nm in self.enc.vars]
            r2 = R.solve(name + ' (cuts tied)', fs + ties, self.timeout)
            self.queries += 1
            self.solver_time += r2.t
            if r2.status == 'unsat':
                return self._rec(name, 'real', 'unsat', r.t + r2.t, h=goal.hash(), note='holds once the cut variables are tied to the computation they replace')
            if r2.status == 'unknown':
                return self._rec(name, 'real', 'unknown', r.t + r2.t, detail='sat under the cut, no verdict with the cut variables tied: ' + str(r2.detail))
            rep = self.confirm_real(name, lhs_out, a, rhs, fs + ties, r2.model)
        return self._rec(name, 'real', 'sat', r.t, **rep)

    def real_true(self, name, formula, with_path=True, extra=(), witness_out=None):
        """obligation: z3 formula (over the encoder's variables) holds for every input satisfying the assumptions (and the path)."""
        fs = self.base(with_path) + list(extra) + [z3.Not(formula)]
        if self.post_subst:
            zs = [(self.enc.var(k), R.Q(Fraction(v))) for k, v in self.post_subst.items()]
            fs = [z3.substitute(f, *zs) for f in fs]
        r = R.solve(name, fs, self.timeout)
        self.queries += 1
        self.solver_time += r.t
        if r.status == 'unsat':
            return self._rec(name, 'real', 'unsat', r.t, h=formula.hash(), trivial=(r.detail == 'trivial'))
        if r.status == 'unknown':
            return self._rec(name, 'real', 'unknown', r.t, detail=r.detail)
        # replay: run the native build on the model (rounded to doubles) and report the observed outputs
        pt = {k: float(v) for k, v in self.point_from_model(r.model).items()}
        rec = {'model': {k: r.model[k] for k in list(r.model)[:20]}, 'point': pt, 'confirmed': False}
        try:
            nd = D.run(self.tu, self.script.text(self.decisions, pt), native=True)
            rec['native_outs'] = {k: nd.outv[k] for k in list(nd.outv)[:12]}
            rec['confirmed'] = True
            rec['replay'] = self.write_replay(name, {'kind': 'formula', 'shadows': pt, 'decisions': self.decisions, 'note': 'inequality / condition violated: ' + formula.sexpr()[:300],
                                                     'native_outs': {k: D.f2hex(v) for k, v in list(nd.outv.items())[:12]}})
        except Exception as e:
            rec['note'] = 'native run failed: %s' % e
        return self._rec(name, 'real', 'sat', r.t, **rec)

    def path_forced(self, name='recorded path is the only feasible one on the domain'):
        """assumptions => path condition (so the single explored path covers the whole domain)."""
        pf = self.path_formulas()
        if not pf:
            return self._rec(name, 'real', 'syntactic')
        if NAME_SUFFIX[0]:
            return None       # alternative-path re-run: coverage is decided by the driver over all explored paths
        r = R.solve(name, self.base(False) + [z3.Not(z3.And(pf))], self.timeout)
        self.queries += 1
        self.solver_time += r.t
        if r.status == 'unsat':
            return self._rec(name, 'real', 'unsat', r.t, h=hash(tuple(f.hash() for f in pf)))
        if r.status == 'unknown':
            return self._rec(name, 'real', 'unknown', r.t, detail=r.detail)
        d = self._rec(name, 'real', 'sat', r.t, confirmed=False, model=r.model, note='another path is feasible: ' + str(self.dag.path)[:300])
        d['pathcover'] = True
        return d

    def witness_search(self, fs, a, rhs, tries=12):
        """After an inconclusive solver call: look for a concrete counterexample by exact rational evaluation.
        Never used to claim that an obligation holds."""
        rng = random.Random(987)
        pos = set()
        for f in self.assume:
            if z3.is_gt(f) and z3.is_const(f.arg(0)):
                pos.add(f.arg(0).decl().name())
        names = list(self.enc.vars.keys())
        for _ in range(tries):
            env = {}
            for nm in names:
                if nm in self.post_subst:
                    env[nm] = Fraction(self.post_subst[nm])
                elif nm in pos or nm.startswith('inv_'):
                    env[nm] = Fraction(rng.randint(8, 32), 16)
                else:
                    env[nm] = Fraction(rng.randint(-32, 32), 16)
            try:
                if self.eval_val(a, dict(env)) == self.eval_val(rhs, dict(env)):
                    continue
            except (ZeroDivisionError, KeyError):
                continue
            zs = [(v, R.Q(env[nm])) for nm, v in self.enc.vars.items()]
            ok = True
            for f in fs:
                g = z3.simplify(z3.substitute(f, *zs))
                if not z3.is_true(g):
                    ok = False
                    break
            if ok:
                return {k: '%d/%d' % (v.numerator, v.denominator) for k, v in env.items()}
        return None

    def real_zero(self, name, lhs_out, with_path=True):
        return self.real_eq(name, lhs_out, R.VZERO, with_path)

    def side_conditions(self, tag='denominators'):
        """every factor the recorded code divided by is non-zero on the domain."""
        for k, term in self.enc.denom_conditions():
            src = self.enc.facsrc.get(k)
            if src and src[0] == 'var':
                nm = src[1]
                # positivity assumed directly?
                fs = self.base(False) + [term == 0]
            else:
                fs = self.base(False) + [term == 0]
            if self.post_subst:
                # obligations of this scenario are decided at the substituted point: the divisors need to be non-zero there
                zs = [(self.enc.var(kk), R.Q(Fraction(v))) for kk, v in self.post_subst.items()]
                fs = [z3.simplify(z3.substitute(f, *zs)) for f in fs]
            r = R.solve('den', fs, self.timeout)
            self.queries += 1
            self.solver_time += r.t
            nm = '%s: divisor #%d != 0' % (tag, k)
            if r.status == 'unsat':
                self._rec(nm, 'side', 'unsat', r.t, h=term.hash(), trivial=(r.t < 1e-9))
            elif r.status == 'unknown':
                self._rec(nm, 'side', 'unknown', r.t, detail=r.detail)
            else:
                self._rec(nm, 'side', 'sat', r.t, model=r.model, confirmed=False, note='divisor can vanish on the domain: ' + term.sexpr()[:200])

    # ------------------------------------------------------------------ replay of Real counterexamples
    def point_from_model(self, model):
        """harness var name -> Fraction (exactly representable double)."""
        pt = {}
        for nm, sh in self.script.shadows.items():
            v = None
            if nm in self.enc.subst:
                v = Fraction(self.enc.subst[nm])
            elif nm in self.post_subst:
                v = Fraction(self.post_subst[nm])
            elif nm in self.enc.inv_vars and ('inv_' + nm) in model:
                iv = frac_of(model['inv_' + nm])
                v = 1 / iv if iv != 0 else None
            elif nm in model:
                v = frac_of(model[nm])
            if v is None:
                v = Fraction(float(sh)) if self.shadow_override is None or nm not in self.shadow_override else Fraction(float(self.shadow_override[nm]))
            pt[nm] = Fraction(float(v))  # round to double, then exact
        return pt

    def env_from_point(self, pt, model=None):
        env = {}
        for nm, v in pt.items():
            if nm in self.enc.inv_vars:
                env['inv_' + nm] = 1 / v
            else:
                env[nm] = v
        if model:
            for k, v in model.items():
                if k not in env:
                    try:
                        env[k] = frac_of(v)
                    except Exception:
                        pass
        return env

    def eval_val(self, v, env, memo=None):
        if memo is None:
            memo = {}
        r = v.c
        for k, e in v.f.items():
            fv = self.eval_factor(k, env, memo)
            if e < 0 and fv == 0:
                raise ZeroDivisionError
            r *= fv ** e
        return r

    def eval_factor(self, k, env, memo):
        if k in memo:
            return memo[k]
        src = self.enc.facsrc[k]
        if src[0] == 'var':
            nm = src[1]
            if nm not in env:
                if nm.startswith('POISON_'):
                    env[nm] = Fraction(1)  # uninitialised storage: any value is possible
                elif nm.startswith('sqrt_') and nm[5:].isdigit():
                    # value of an (opaque) square root: from its recorded argument, to double precision (replay support only)
                    import math
                    arg = self.eval_val(self.enc.node(self.dag.nodes[int(nm[5:])][1]), env)
                    if arg < 0:
                        raise KeyError(nm)
                    env[nm] = Fraction(math.sqrt(float(arg)))
                    self._approx_eval = True
                else:
                    raise KeyError(nm)
            x = env[nm]
        elif src[0] == 'sum':
            x = self.eval_val(src[1], env, memo) + self.eval_val(src[2], env, memo)
        else:
            raise KeyError('opaque factor')
        memo[k] = x
        return x

    def confirm_real(self, name, lhs_out, a, rhs, fs, model):
        """Replay a sat model against the native double build of the same harness."""
        out = {'model': {k: model[k] for k in list(model)[:40]}, 'confirmed': False}
        cands = []
        # robust witness: a model inside a normalised box
        box = []
        for nm in self.script.shadows:
            if nm in self.enc.subst:
                continue
            if nm in self.enc.inv_vars:
                v = self.enc.var('inv_' + nm)
                box += [v >= Q_(1, 2), v <= 2]
            elif nm in self.enc.vars:
                v = self.enc.var(nm)
                if any(z3.eq(f, v > 0) for f in self.assume):
                    box += [v >= Q_(1, 2), v <= 2]
                else:
                    box += [v >= -4, v <= 4]
        rb = R.solve(name + ' (box)', fs + box, min(20, self.timeout))
        self.queries += 1
        if rb.status == 'sat':
            cands.append(rb.model)
        cands.append(model)
        best = None
        for m in cands:
            try:
                pt = self.point_from_model(m)
                env = self.env_from_point(pt, m)
                for nid, nm in self.enc.cuts.items():     # cut variables take the values the real computation gives them
                    env[nm] = self.eval_val(self.enc.node(nid, cut=False), dict(env))
                exp = self.eval_val(rhs, env)
                lhs_exact = self.eval_val(a, env)
            except (ZeroDivisionError, KeyError, OverflowError) as e:
                out['note'] = 'exact evaluation failed: %r' % (e,)
                continue
            nat = None
            if lhs_out is not None:
                try:
                    nd = D.run(self.tu, self.script.text(None, {k: float(v) for k, v in pt.items()}), native=True)
                    nat = nd.outv.get(lhs_out)
                except Exception as e:
                    out['note'] = 'native run failed: %s' % e
            try:
                expf, lexf = float(exp), float(lhs_exact)
            except OverflowError:
                continue
            scale = max(1.0, abs(expf), abs(lexf))
            resid_exact = abs(lexf - expf) / scale
            resid_nat = abs(nat - expf) / scale if nat is not None and nat == nat else None
            rec = {'point': {k: float(v) for k, v in pt.items()}, 'expected': expf, 'lhs_exact': lexf, 'lhs_native': nat,
                   'resid_exact': resid_exact, 'resid_native': resid_nat}
            strong = (resid_nat is not None and resid_nat > 1e-6) or (nat is not None and nat != nat and expf == expf)
            rec['strong'] = bool(strong)
            if best is None or strong:
                best = rec
            if strong:
                break
        if best:
            out.update(best)
            # confirmed: the model, rounded to doubles, still separates the two sides in exact arithmetic on the
            # recorded trace of the real code, and the native double build was run on it (both residuals reported)
            poisoned = lhs_out is not None and bool(self.dag.poisons_of([self.dag.outs[lhs_out]]))
            if poisoned:
                out['note'] = 'result depends on uninitialised storage (POISON): the native value is whatever the heap held'
            floor_ = 1e-9 if getattr(self, '_approx_eval', False) else 0
            if best['resid_exact'] > floor_ and (best['lhs_native'] is not None or poisoned):
                out['confirmed'] = True
                out['replay'] = self.write_replay(name, {'kind': 'real', 'lhs_out': lhs_out, 'expected': D.f2hex(best['expected']),
                                                         'tol': 1e-6, 'shadows': best['point'], 'resid_native': best['resid_native'],
                                                         'resid_exact': best['resid_exact']})
        return out

    def write_replay(self, name, body):
        os.makedirs(REPLAY_DIR, exist_ok=True)
        body.update({'property': self.prop, 'obligation': self.name + ' :: ' + name, 'tu': tu_spec(self.tu),
                     'script': self.script.text(None, body.get('shadows'))})
        h = hashlib.sha256(json.dumps(body, sort_keys=True).encode()).hexdigest()[:12]
        p = os.path.join(REPLAY_DIR, '%s-%s.json' % (self.prop, h))
        with open(p, 'w') as f:
            json.dump(body, f, indent=1)
        return p

    # ------------------------------------------------------------------ UF equalities
    def uf_eq(self, name, out_a, out_b, real_fallback=False):
        na, nb = self.dag.outs[out_a], self.dag.outs[out_b]
        if na == nb:
            return self._rec(name, 'uf', 'syntactic')
        t = time.time()
        if self.uf.same(na, nb):
            ok = self.uf.z3_all_equal([(na, nb)])[0]
            self.queries += 1
            if ok:
                return self._rec(name, 'uf', 'unsat', time.time() - t, h=hash((self.uf.cid(na),)))
        # equality tests on the recorded path that came out TRUE make their operands bit-equal on this path: decide the
        # identity in the theory of uninterpreted functions WITH these equalities (congruence closure by z3)
        hyps = [(f[1], f[2]) for f in self.dag.path if f[0] == 'eq' and f[3] == 1 and f[1] >= 0 and f[2] >= 0 and f[1] != f[2]]
        if hyps:
            if getattr(self, '_uf_alias', None) is None:
                # union-find over the operands of the true equality tests; every class is represented by its smallest node id
                par = {}

                def find(x):
                    while par.get(x, x) != x:
                        x = par[x]
                    return x
                for (x, y) in hyps:
                    rx, ry = find(x), find(y)
                    if rx != ry:
                        par[max(rx, ry)] = min(rx, ry)
                self._uf_alias = U.UF(self.dag, alias={x: find(x) for x in list(par)})
            if self._uf_alias.same(na, nb):
                self.queries += 1
                return self._rec(name, 'uf', 'unsat', time.time() - t, h=hash((self.uf.cid(na), self.uf.cid(nb))), note='node identity modulo the equalities tested true on this path')
        if real_fallback:
            return self.real_eq(name + ' [real]', out_a, self.enc.out(out_b))
        cap = self.capped()
        if cap:
            return self._rec(name, 'uf', 'sat', time.time() - t, confirmed=True, replay=cap, note='recorded computations differ; not replayed individually (scenario already has replayed violations)')
        rep = None
        self._uf_attempts = getattr(self, '_uf_attempts', 0) + 1
        if self._uf_attempts > 12:
            # many structurally different results in one scenario and none of the first ones reproduced natively: do not spend
            # solver / replay time on each of them (the run is failing anyway: unconfirmed differences exit 1)
            return self._rec(name, 'uf', 'sat', time.time() - t, confirmed=False, note='recorded computations differ structurally; not replayed (per-scenario cap)')
        if not self.dag.poisons_of([na, nb]) and self._uf_attempts <= 2 and SEP_BUDGET[0] > 0 and len(self.dag.slice([na, nb])) < 4000:
            SEP_BUDGET[0] -= 1
            # the two recorded computations differ: ask the Real interpretation for an input that separates them
            try:
                va, vb = self.enc.node(na), self.enc.node(nb)
                fs = self.base(True) + [self.enc.ne_formula(va, vb)]
                pre = self.witness_search(fs[:-1], va, vb, tries=3)
                r = R.Result(name, 'sat', 0.0, model=pre) if pre is not None else R.solve(name, fs, min(self.timeout, 8))
                self.queries += 1
                if r.status == 'sat':
                    pt = {k: float(v) for k, v in self.point_from_model(r.model).items()}
                    rep = self.confirm_uf(name, out_a, out_b, first_point=pt)
            except Exception as e:  # encoding problems must not hide the structural difference
                rep = None
        if rep is None or not rep.get('confirmed'):
            rep = self.confirm_uf(name, out_a, out_b)
        return self._rec(name, 'uf', 'sat', time.time() - t, **rep)

    def uf_node_eq(self, name, out_a, node_b):
        """out must be literally the given node (e.g. an input variable)."""
        na = self.dag.outs[out_a]
        if na == node_b or self.uf.same(na, node_b):
            return self._rec(name, 'uf', 'syntactic')
        return self._rec(name, 'uf', 'sat', 0.0, confirmed=True, note='out %s is not the expected input node' % out_a,
                         replay=self.write_replay(name, {'kind': 'uf_node', 'out': out_a}))

    def confirm_uf(self, name, out_a, out_b, first_point=None):
        if self.dag.poisons_of([self.dag.outs[out_a], self.dag.outs[out_b]]):
            return {'confirmed': True, 'note': 'result depends on uninitialised storage (POISON)',
                    'replay': self.write_replay(name, {'kind': 'uf', 'out_a': out_a, 'out_b': out_b, 'shadows': dict(self.script.shadows),
                                                       'decisions': self.decisions, 'poison': True})}
        rng = random.Random(12345)
        base_sh = dict(self.script.shadows)
        if self.shadow_override:
            base_sh.update(self.shadow_override)
        ntr = 24 if first_point is None else 1
        for trial in range(ntr):
            self._native_runs = getattr(self, '_native_runs', 0) + 1
            if self._native_runs > 80:
                return {'confirmed': False, 'note': 'recorded computations differ structurally; native replay budget of this scenario (80 runs) used up'}
            pt = {}
            for nm, sh in base_sh.items():
                if first_point is not None:
                    pt[nm] = float(first_point.get(nm, sh))
                elif trial == 0 or self.decisions:
                    pt[nm] = float(sh)
                else:
                    pt[nm] = float(sh) * (1 + 0.37 * rng.random()) + 0.01 * rng.random()
            try:
                nd = D.run(self.tu, self.script.text(self.decisions, pt), native=True)
            except Exception as e:
                return {'confirmed': False, 'note': 'native run failed: %s' % e}
            a, b = nd.outv.get(out_a), nd.outv.get(out_b)
            if a is None or b is None:
                return {'confirmed': False, 'note': 'outs missing in native run'}
            if D.f2hex(a) != D.f2hex(b):
                return {'confirmed': True, 'a': a, 'b': b, 'point': pt,
                        'replay': self.write_replay(name, {'kind': 'uf', 'out_a': out_a, 'out_b': out_b, 'shadows': pt,
                                                           'decisions': self.decisions})}
        return {'confirmed': False, 'note': 'recorded computations differ structurally but gave identical doubles on %d inputs%s' % (ntr, (' [UF-with-path-equalities query failed: %s]' % self._hyp_err) if getattr(self, '_hyp_err', None) else '')}

    # ------------------------------------------------------------------ concrete ints
    def int_eq(self, name, key, expected):
        got = self.dag.ints.get(key)
        if got == expected:
            return self._rec(name, 'int', 'int_ok')
        return self._rec(name, 'int', 'sat', 0.0, confirmed=True, got=got, expected=expected,
                         replay=self.write_replay(name, {'kind': 'int', 'key': key, 'expected': expected, 'decisions': self.decisions}))

    def check(self, name, cond, detail=''):
        if cond:
            return self._rec(name, 'int', 'int_ok')
        return self._rec(name, 'int', 'sat', 0.0, confirmed=True, note=detail,
                         replay=self.write_replay(name, {'kind': 'structural', 'note': detail, 'decisions': self.decisions}))

    # ------------------------------------------------------------------ path feasibility (vacuity guard)
    def path_feasible(self):
        r = R.solve('path', self.base(True), self.timeout)
        self.queries += 1
        return r.status

    def vacuity_guard(self):
        """reachability witness (s2.3): the assumptions together with the recorded path condition must be satisfiable, otherwise
        every Real obligation of this scenario was discharged vacuously"""
        if getattr(self, '_vac_done', False):
            return
        self._vac_done = True
        if not any(r['kind'] in ('real', 'side') and r['status'] == 'unsat' and not r.get('trivial') for r in self.results):
            return
        fs = self.base(True)
        if self.post_subst:
            zs = [(self.enc.var(k), R.Q(Fraction(v))) for k, v in self.post_subst.items()]
            fs = [z3.substitute(f, *zs) for f in fs]
        r = R.solve('witness', fs, min(self.timeout, 30))
        self.queries += 1
        if r.status == 'sat':
            self._rec('witness: assumptions and path condition are jointly satisfiable (obligations not vacuous)', 'witness', 'int_ok', r.t)
        elif r.status == 'unsat':
            self._rec('witness: assumptions and path condition are jointly satisfiable (obligations not vacuous)', 'witness', 'sat', r.t, confirmed=False,
                      note='the assumptions of this scenario contradict each other or the recorded path: its obligations hold vacuously')
        else:
            self._rec('witness: assumptions and path condition are jointly satisfiable (obligations not vacuous)', 'witness', 'unknown', r.t, detail=r.detail)

    def finish(self):
        self.vacuity_guard()
        return {'scenario': self.name, 'results': self.results, 'queries': self.queries, 'solver_s': round(self.solver_time, 3),
                'nodes': len(self.dag.nodes), 'path_len': len(self.dag.path)}


def Q_(a, b):
    return z3.RealVal('%d/%d' % (a, b))
