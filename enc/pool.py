"""Process pool with hard per-task kill (z3's soft timeout is not always honoured by nlsat)."""
import multiprocessing as mp, os, time, traceback, importlib, sys


def _worker(conn):
    sys.setrecursionlimit(100000)
    while True:
        try:
            msg = conn.recv()
        except EOFError:
            return
        if msg is None:
            return
        modname, fn, task = msg
        try:
            mod = importlib.import_module(modname)
            res = getattr(mod, fn)(task)
            conn.send(('ok', res))
        except Exception as e:
            conn.send(('err', '%s: %s\n%s' % (type(e).__name__, e, traceback.format_exc()[-3000:])))


class Pool:
    def __init__(self, n=16, hard_timeout=600):
        self.n = n
        self.hard = hard_timeout
        self.ctx = mp.get_context('fork')
        self.workers = []

    def _spawn(self):
        a, b = self.ctx.Pipe()
        p = self.ctx.Process(target=_worker, args=(b,), daemon=True)
        p.start()
        b.close()
        return {'p': p, 'c': a, 'task': None, 't0': 0}

    def run(self, jobs, progress=None, stop=None):
        """jobs: list of (modname, fn, task).  Returns list of ('ok', result) | ('err', msg) | ('timeout', None)."""
        results = [None] * len(jobs)
        nxt = 0
        done = 0
        self.workers = [self._spawn() for _ in range(min(self.n, max(1, len(jobs))))]
        try:
            while done < len(jobs):
                if nxt >= len(jobs) and all(w['task'] is None for w in self.workers):
                    break
                for w in self.workers:
                    if w['task'] is None and nxt < len(jobs):
                        w['task'] = nxt
                        w['t0'] = time.time()
                        w['c'].send(jobs[nxt])
                        nxt += 1
                active = [w for w in self.workers if w['task'] is not None]
                if not active:
                    break
                ready = mp.connection.wait([w['c'] for w in active], timeout=1.0)
                now = time.time()
                for i, w in enumerate(self.workers):
                    if w['task'] is None:
                        continue
                    if w['c'] in ready:
                        try:
                            results[w['task']] = w['c'].recv() + (round(time.time() - w['t0'], 2),)
                        except (EOFError, ConnectionResetError):
                            results[w['task']] = ('err', 'worker died')
                            w['p'].kill()
                            self.workers[i] = self._spawn()
                            done += 1
                            if progress:
                                progress(done, len(jobs))
                            continue
                        if stop is not None and stop(results[w['task']]):
                            nxt = len(jobs)        # sweep mode: dispatch nothing further; undispatched tasks stay None
                        w['task'] = None
                        done += 1
                        if progress:
                            progress(done, len(jobs))
                    elif now - w['t0'] > self.hard:
                        results[w['task']] = ('timeout', None)
                        w['p'].kill()
                        w['p'].join()
                        self.workers[i] = self._spawn()
                        done += 1
                        if progress:
                            progress(done, len(jobs))
        finally:
            for w in self.workers:
                try:
                    w['c'].send(None)
                except Exception:
                    pass
            for w in self.workers:
                w['p'].join(timeout=2)
                if w['p'].is_alive():
                    w['p'].kill()
        return results
