"""Run a harness TU on a scenario script and load the recorded DAG."""
import json, os, subprocess, tempfile, struct
from fractions import Fraction
from . import build

CONST, VAR, ADD, SUB, MUL, DIV, NEG, SQRT, ABS, FLOOR, POISON = range(11)
OPN = ['const', 'var', 'add', 'sub', 'mul', 'div', 'neg', 'sqrt', 'abs', 'floor', 'poison']
RUN_DIR = os.path.join(build.BUILD, 'run')
SHADOW_OVERRIDE = {}     # name -> double: shadows of a whole task re-run on another feasible path (set by props/common.py only)


def hex2f(s):
    if s == 'nan':
        return float('nan')
    if s == 'inf':
        return float('inf')
    if s == '-inf':
        return float('-inf')
    return float.fromhex(s)


def f2hex(x):
    if x != x:
        return 'nan'
    if x in (float('inf'), float('-inf')):
        return 'inf' if x > 0 else '-inf'
    return float(x).hex()


class HarnessCrash(RuntimeError):
    def __init__(self, tu, text, rc, stderr, native):
        RuntimeError.__init__(self, 'harness %s (%s) exited rc=%d: %s' % (tu.name, 'native' if native else 'recording', rc, stderr))
        self.tu, self.text, self.rc, self.stderr, self.native = tu, text, rc, stderr, native


class Dag:
    def __init__(self, d):
        self.mode = d.get('mode')
        self.ints = d.get('ints', {})
        if self.mode == 'native':
            self.outv = {k: hex2f(v) for k, v in d['outs'].items()}
            return
        self.nodes = d['nodes']
        self.outs = {k: v[0] for k, v in d['outs'].items()}
        self.outv = {k: hex2f(v[1]) for k, v in d['outs'].items()}
        self.path = d['path']
        self.varid = {n[1]: i for i, n in enumerate(self.nodes) if n[0] == VAR}

    def slice(self, roots):
        """ids of all nodes reachable from roots (sorted ascending = topological)."""
        seen = set()
        st = list(roots)
        nodes = self.nodes
        while st:
            i = st.pop()
            if i in seen or i < 0:
                continue
            seen.add(i)
            n = nodes[i]
            if n[0] >= ADD and n[0] != POISON:
                st.append(n[1])
                if n[2] >= 0:
                    st.append(n[2])
        return sorted(seen)

    def vars_of(self, roots):
        return sorted(self.nodes[i][1] for i in self.slice(roots) if self.nodes[i][0] == VAR)

    def poisons_of(self, roots):
        return [i for i in self.slice(roots) if self.nodes[i][0] == POISON]


class Script:
    """Small helper to write scenario scripts."""

    def __init__(self):
        self.lines = []
        self.shadows = {}

    def add(self, *toks):
        self.lines.append(' '.join(str(t) for t in toks))
        return self

    def var(self, name, shadow):
        self.shadows[name] = shadow
        self.lines.append('var %s %s' % (name, f2hex(float(shadow))))
        return name

    def vars(self, names, shadows):
        return [self.var(n, s) for n, s in zip(names, shadows)]

    def text(self, decisions=None, shadow_override=None):
        lines = self.lines
        if SHADOW_OVERRIDE:
            # alternative-path re-execution (props/common.py): explicit overrides (grid substitutions) win over the global ones
            shadow_override = dict({k: v for k, v in SHADOW_OVERRIDE.items() if k in self.shadows}, **(shadow_override or {}))
        if shadow_override:
            lines = []
            for l in self.lines:
                if l.startswith('var '):
                    nm = l.split()[1]
                    if nm in shadow_override:
                        l = 'var %s %s' % (nm, f2hex(float(shadow_override[nm])))
                lines.append(l)
        pre = []
        if decisions:
            pre.append('decisions ' + ' '.join(str(int(x)) for x in decisions))
        return '\n'.join(pre + lines) + '\n'


def run(tu, script_text, native=False, keep=False):
    os.makedirs(RUN_DIR, exist_ok=True)
    exe = tu.path(native)
    fd, sp = tempfile.mkstemp(prefix='s', suffix='.txt', dir=RUN_DIR)
    os.write(fd, script_text.encode())
    os.close(fd)
    op = sp[:-4] + '.json'
    try:
        r = subprocess.run([exe, sp, op], capture_output=True, text=True, timeout=600)
        if r.returncode != 0:
            raise HarnessCrash(tu, script_text, r.returncode, r.stderr[-1500:], native)
        with open(op) as f:
            d = json.load(f)
    finally:
        if not keep:
            for p in (sp, op):
                try:
                    os.unlink(p)
                except OSError:
                    pass
    return Dag(d)


def merge(primary, others):
    """Merge several recorded DAGs (same variable names = same inputs) into the primary one, re-interning
    structurally equal nodes so that identical computations in different TUs / runs get the same node id.
    others: dict prefix -> Dag; their outs/ints are exposed as '<prefix>:<name>'."""
    import copy
    m = copy.copy(primary)
    m.nodes = list(primary.nodes)
    m.outs = dict(primary.outs)
    m.outv = dict(primary.outv)
    m.ints = dict(primary.ints)
    m.path = list(primary.path)
    table = {}
    for i, n in enumerate(m.nodes):
        if n[0] == POISON:
            continue
        table.setdefault(tuple(n), i)
    npoison = sum(1 for n in m.nodes if n[0] == POISON)
    for pre, g in others.items():
        mp = [0] * len(g.nodes)
        for i, n in enumerate(g.nodes):
            op = n[0]
            if op in (CONST, VAR):
                key = (op, n[1])
            elif op == POISON:
                key = None
            else:
                key = (op, mp[n[1]], mp[n[2]] if n[2] >= 0 else -1)
            if key is not None and key in table:
                mp[i] = table[key]
                continue
            if op == POISON:
                m.nodes.append([POISON, npoison, -1])
                npoison += 1
            else:
                m.nodes.append(list(key))
                table[key] = len(m.nodes) - 1
            mp[i] = len(m.nodes) - 1
        for k, v in g.outs.items():
            m.outs[pre + ':' + k] = mp[v]
            m.outv[pre + ':' + k] = g.outv[k]
        for k, v in g.ints.items():
            m.ints[pre + ':' + k] = v
        for f in g.path:
            m.path.append([f[0], mp[f[1]] if f[1] >= 0 else -1, mp[f[2]] if f[2] >= 0 else -1, f[3]])
    m.varid = {n[1]: i for i, n in enumerate(m.nodes) if n[0] == VAR}
    return m
