"""Real-arithmetic interpretation of a recorded DAG (division-free, factored).

Every node is mapped to a *factored Laurent monomial*  coef * prod_i f_i^{e_i}  where coef is an exact
Fraction, each f_i is an opaque z3 real term (a variable or a sum of such monomials) and e_i may be
negative (the f_i the real code divided by).  Sums pull out the common part (minimum exponents) and create
one new opaque factor for the rest.  A goal  a == b  becomes "some positive-exponent factor of a-b is 0",
a division-free polynomial (dis)equality that the SMT solver decides; "every factor that ever occurred
with a negative exponent is != 0 on the domain" is discharged as separate side-condition queries.
Forward-mode AD on the DAG gives exact derivatives in the same representation.
"""
import time
from fractions import Fraction
import z3
from . import dag as D

ZERO = Fraction(0)
ONE = Fraction(1)


def Q(fr):
    return z3.RealVal(str(fr.numerator) + '/' + str(fr.denominator)) if fr.denominator != 1 else z3.RealVal(fr.numerator)


def rationalize(x):
    """Exact-real reading of a double literal: the simplest rational that rounds to it (s3.2).  Run-time folded
    products of literals such as 3 * (1.0/5) land one or two ulps away from the intended 3/5: a rational with
    denominator <= 1000 within 2 ulp is accepted as well."""
    fr = Fraction(x)
    if fr.denominator <= 2 ** 24:
        return fr
    c = fr.limit_denominator(1000)
    if abs(c - fr) <= abs(fr) * Fraction(1, 2 ** 51):
        return c
    for lim in (10 ** 3, 10 ** 6, 10 ** 9):
        c = fr.limit_denominator(lim)
        if float(c) == x:
            return c
    return fr


class Val:
    __slots__ = ('c', 'f')

    def __init__(self, c, f=None):
        self.c = c
        self.f = f if f is not None else {}

    def is_zero(self):
        return self.c == 0

    def is_const(self):
        return not self.f


VZERO = Val(ZERO)
VONE = Val(ONE)


class Enc:
    def __init__(self, dag, subst=None, cuts=None, inv_vars=(), prefix='', sqrt_opaque=False):
        """subst: var name -> Fraction (T-grid); cuts: node id -> var name (replace node by a fresh variable);
        inv_vars: var names v encoded as 1/x_v (x_v fresh, positive) - the x = 1/h parametrisation."""
        self.dag = dag
        self.subst = subst or {}
        self.cuts = cuts or {}
        self.inv_vars = set(inv_vars)
        self.prefix = prefix
        self.fac = {}        # key -> z3 term
        self.facsrc = {}     # key -> (Val a, Val b, sign) for sums (needed by AD), or ('var', name)
        self.vars = {}       # name -> z3 const
        self.denoms = set()  # keys that occurred with negative exponent
        self.assumptions = []  # from sqrt etc.
        self.memo = {}
        self.dmemo = {}
        self.dfac = {}
        self.sqrt_nodes = {}
        self.sqrt_opaque = sqrt_opaque
        self.memo_nc = {}    # node values computed ignoring the cuts (consistency re-checks, chain-rule factors)
        self.fdeps = {}      # var name -> [(Val partial, Val argument)] : the variable is a FUNCTION of the arguments with these partials (oracle functors)

    # ------------------------------------------------------------------ factors
    def var(self, name):
        v = self.vars.get(name)
        if v is None:
            v = z3.Real(self.prefix + name)
            self.vars[name] = v
        return v

    def factor(self, term, src):
        k = term.get_id()
        if k not in self.fac:
            self.fac[k] = term
            self.facsrc[k] = src
        return k

    def vvar(self, name):
        t = self.var(name)
        return Val(ONE, {self.factor(t, ('var', name)): 1})

    def term_of(self, v):
        """z3 term of a Val with non-negative exponents only."""
        t = None
        for k, e in v.f.items():
            if e < 0:
                raise ValueError('negative exponent in term_of')
            f = self.fac[k]
            for _ in range(e):
                t = f if t is None else t * f
        if t is None:
            return Q(v.c)
        if v.c == 1:
            return t
        if v.c == -1:
            return -t
        return Q(v.c) * t

    # ------------------------------------------------------------------ arithmetic
    def mul(self, a, b):
        if a.c == 0 or b.c == 0:
            return VZERO
        if not b.f:
            return Val(a.c * b.c, a.f)
        if not a.f:
            return Val(a.c * b.c, b.f)
        f = dict(a.f)
        for k, e in b.f.items():
            n = f.get(k, 0) + e
            if n:
                f[k] = n
            else:
                del f[k]
        return Val(a.c * b.c, f)

    def inv(self, b):
        if b.c == 0:
            raise ZeroDivisionError('division by literal zero in recorded code')
        f = {}
        for k, e in b.f.items():
            f[k] = -e
            if e > 0:
                self.denoms.add(k)
        return Val(1 / b.c, f)

    def div(self, a, b):
        return self.mul(a, self.inv(b))

    def neg(self, a):
        return Val(-a.c, a.f)

    def scale(self, a, c):
        if c == 0:
            return VZERO
        return Val(a.c * c, a.f)

    def add(self, a, b, sg=1):
        if b.c == 0:
            return a
        if a.c == 0:
            return Val(sg * b.c, b.f)
        if a.f == b.f:
            c = a.c + sg * b.c
            return Val(c, a.f) if c else VZERO
        common = {}
        for k, e in a.f.items():
            e2 = b.f.get(k)
            if e2 is not None:
                m = min(e, e2)
                if m:
                    common[k] = m
            elif e < 0:
                common[k] = e
        for k, e in b.f.items():
            if k not in a.f and e < 0:
                common[k] = e
        ra = {k: e - common.get(k, 0) for k, e in a.f.items() if e - common.get(k, 0)}
        rb = {k: e - common.get(k, 0) for k, e in b.f.items() if e - common.get(k, 0)}
        for k, e in common.items():
            if k not in a.f:
                ra[k] = -e
            if k not in b.f:
                rb[k] = -e
        A = Val(a.c, ra)
        B = Val(sg * b.c, rb)
        s = self.term_of(A) + self.term_of(B)
        k = self.factor(s, ('sum', A, B))
        f = dict(common)
        f[k] = f.get(k, 0) + 1
        return Val(ONE, f)

    def sum(self, vals):
        acc = VZERO
        for v in vals:
            acc = self.add(acc, v)
        return acc

    def const(self, fr):
        return Val(Fraction(fr))

    def pow(self, a, n):
        r = VONE
        for _ in range(n):
            r = self.mul(r, a)
        return r

    # ------------------------------------------------------------------ DAG nodes
    def node(self, i, cut=True):
        memo = self.memo if cut else self.memo_nc
        if i in memo:
            return memo[i]
        nodes = self.dag.nodes
        for j in self.dag.slice([i]):
            if j in memo:
                continue
            n = nodes[j]
            op = n[0]
            if cut and j in self.cuts:
                memo[j] = self.vvar(self.cuts[j])
            elif op == D.CONST:
                x = D.hex2f(n[1])
                if x != x or x in (float('inf'), float('-inf')):
                    raise ValueError('non-finite constant in Real interpretation')
                memo[j] = Val(rationalize(x))
            elif op == D.VAR:
                nm = n[1]
                if nm in self.subst:
                    memo[j] = Val(Fraction(self.subst[nm]))
                elif nm in self.inv_vars:
                    x = self.vvar('inv_' + nm)
                    memo[j] = self.inv(x)
                else:
                    memo[j] = self.vvar(nm)
            elif op == D.ADD:
                memo[j] = self.add(memo[n[1]], memo[n[2]], 1)
            elif op == D.SUB:
                memo[j] = self.add(memo[n[1]], memo[n[2]], -1)
            elif op == D.MUL:
                memo[j] = self.mul(memo[n[1]], memo[n[2]])
            elif op == D.DIV:
                memo[j] = self.div(memo[n[1]], memo[n[2]])
            elif op == D.NEG:
                memo[j] = self.neg(memo[n[1]])
            elif op == D.SQRT:
                y = self.vvar('sqrt_%d' % j)
                self.sqrt_nodes[j] = y
                arg = memo[n[1]]
                yk = next(iter(y.f))
                if not self.sqrt_opaque:
                    self.assumptions.append(self.fac[yk] >= 0)
                    self.assumptions.append(self.eq_formula(self.mul(y, y), arg))
                memo[j] = y
            elif op == D.ABS:
                a = memo[n[1]]
                if all(e >= 0 for e in a.f.values()):
                    t = self.as_term(a)
                    s = z3.If(t >= 0, t, -t)
                    memo[j] = Val(ONE, {self.factor(s, ('opaque',)): 1})
                else:
                    # |x| of a quotient: fresh y with y >= 0 and y*y == x*x (division-free, like sqrt)
                    y = self.vvar('abs_%d' % j)
                    self.assumptions.append(self.fac[next(iter(y.f))] >= 0)
                    self.assumptions.append(self.eq_formula(self.mul(y, y), self.mul(a, a)))
                    memo[j] = y
            elif op == D.POISON:
                memo[j] = self.vvar('POISON_%d' % n[1])
            elif op == D.FLOOR:
                a = memo[n[1]]
                y = z3.Int(self.prefix + 'floor_%d' % j)
                yr = z3.ToReal(y)
                self.assumptions.append(self.le_formula(Val(ONE, {self.factor(yr, ('opaque',)): 1}), a))
                self.assumptions.append(self.lt_formula(a, self.add(Val(ONE, {self.factor(yr, ('opaque',)): 1}), VONE)))
                memo[j] = Val(ONE, {self.factor(yr, ('opaque',)): 1})
            else:
                raise ValueError('op %d' % op)
        return memo[i]

    def out(self, name):
        return self.node(self.dag.outs[name])

    # ------------------------------------------------------------------ formulas
    def _sign_term(self, x):
        """z3 term with the same sign as Val x wherever all negative-exponent factors are non-zero."""
        t = None
        for k, e in x.f.items():
            f = self.fac[k]
            if e % 2 == 1:
                t = f if t is None else t * f
            elif e > 0:
                t = f * f if t is None else t * f * f
        if t is None:
            return Q(x.c)
        return t if x.c > 0 else -t

    def as_term(self, x):
        """Val as a single z3 term; only for Vals without negative exponents."""
        return self.term_of(x)

    def eq_formula(self, a, b):
        x = self.add(a, b, -1)
        if x.c == 0:
            return z3.BoolVal(True)
        pos = [self.fac[k] for k, e in x.f.items() if e > 0]
        if not pos:
            return z3.BoolVal(False)
        return z3.Or([p == 0 for p in pos]) if len(pos) > 1 else pos[0] == 0

    def ne_formula(self, a, b):
        x = self.add(a, b, -1)
        if x.c == 0:
            return z3.BoolVal(False)
        pos = [self.fac[k] for k, e in x.f.items() if e > 0]
        if not pos:
            return z3.BoolVal(True)
        return z3.And([p != 0 for p in pos]) if len(pos) > 1 else pos[0] != 0

    def lt_formula(self, a, b):
        x = self.add(a, b, -1)
        if not x.f:
            return z3.BoolVal(x.c < 0)
        return self._sign_term(x) < 0

    def le_formula(self, a, b):
        x = self.add(a, b, -1)
        if not x.f:
            return z3.BoolVal(x.c <= 0)
        return self._sign_term(x) <= 0

    def path_formula(self, fork):
        kind, a, b, outcome = fork
        if kind in ('lt', 'le', 'eq'):
            A, B = self.node(a), self.node(b)
            f = {'lt': self.lt_formula, 'le': self.le_formula, 'eq': self.eq_formula}[kind](A, B)
            return f if outcome else z3.Not(f)
        if kind == 'fin':
            return z3.BoolVal(bool(outcome))  # reals are finite
        if kind in ('nan', 'inf'):
            return z3.BoolVal(not outcome)
        if kind == 'floorint':
            A = self.node(a)
            n = Val(Fraction(outcome))
            return z3.And(self.le_formula(n, A), self.lt_formula(A, self.add(n, VONE)))
        if kind == 'truncint':     # conversion to an integer type: truncation towards zero
            A = self.node(a)
            n = Val(Fraction(outcome))
            if outcome > 0:
                return z3.And(self.le_formula(n, A), self.lt_formula(A, self.add(n, VONE)))
            if outcome < 0:
                return z3.And(self.lt_formula(self.add(n, VONE, -1), A), self.le_formula(A, n))
            return z3.And(self.lt_formula(Val(Fraction(-1)), A), self.lt_formula(A, VONE))
        raise ValueError(kind)

    def denom_conditions(self):
        """[(key, z3 term)] - each must be shown != 0 on the domain."""
        return [(k, self.fac[k]) for k in sorted(self.denoms)]

    # ------------------------------------------------------------------ AD
    def dfactor(self, k, wrt):
        key = (k, wrt)
        r = self.dfac.get(key)
        if r is not None:
            return r
        src = self.facsrc[k]
        if src[0] == 'var':
            r = VONE if src[1] == wrt else VZERO
            for (g, arg) in self.fdeps.get(src[1], ()):
                r = self.add(r, self.mul(g, self.dval(arg, wrt)))
        elif src[0] == 'sum':
            r = self.add(self.dval(src[1], wrt), self.dval(src[2], wrt), 1)
        else:
            raise ValueError('derivative through opaque factor')
        self.dfac[key] = r
        return r

    def dval(self, v, wrt):
        """derivative of a Val (by the product rule over its factors)."""
        if v.c == 0 or not v.f:
            return VZERO
        acc = VZERO
        for k, e in v.f.items():
            dk = self.dfactor(k, wrt)
            if dk.c == 0:
                continue
            # v * e * dk / f_k
            f = dict(v.f)
            if e == 1:
                del f[k]
            else:
                f[k] = e - 1
            if e < 0:
                self.denoms.add(k)
            term = self.mul(Val(v.c * e, f), dk)
            acc = self.add(acc, term)
        return acc

    def dnode(self, i, wrt):
        """d node_i / d (harness variable or cut name `wrt`); handles the x = 1/h parametrisation."""
        return self.dwrt(self.node(i), wrt)

    def dwrt(self, v, wrt):
        if wrt in self.inv_vars:
            x = self.vvar('inv_' + wrt)
            return self.neg(self.mul(self.mul(x, x), self.dval(v, 'inv_' + wrt)))
        return self.dval(v, wrt)


# ---------------------------------------------------------------------- solving
class Result:
    def __init__(self, name, status, t=0.0, model=None, detail=None):
        self.name, self.status, self.t, self.model, self.detail = name, status, t, model, detail

    def asdict(self):
        d = {'name': self.name, 'status': self.status, 't': round(self.t, 3)}
        if self.model is not None:
            d['model'] = self.model
        if self.detail is not None:
            d['detail'] = self.detail
        return d


def model_to_dict(m):
    out = {}
    for d in m.decls():
        v = m[d]
        try:
            if z3.is_rational_value(v):
                out[d.name()] = str(v.numerator_as_long()) + '/' + str(v.denominator_as_long())
            elif z3.is_algebraic_value(v):
                a = v.approx(30)
                out[d.name()] = str(a.numerator_as_long()) + '/' + str(a.denominator_as_long())
            elif z3.is_int_value(v):
                out[d.name()] = str(v.as_long())
            else:
                out[d.name()] = str(v)
        except Exception:
            out[d.name()] = str(v)
    return out


def solve(name, formulas, timeout_s=60, logic='QF_NRA'):
    """unsat => the negated goal (in `formulas`) has no solution: obligation discharged."""
    t = time.time()
    fs = []
    for f in formulas:
        if z3.is_true(f):
            continue
        if z3.is_false(f):
            return Result(name, 'unsat', 0.0, detail='trivial')
        fs.append(f)
    if not fs:
        return Result(name, 'sat', 0.0, model={}, detail='trivially satisfiable')
    s = z3.SolverFor(logic)
    s.set('timeout', int(timeout_s * 1000))
    for f in fs:
        s.add(f)
    try:
        r = s.check()
    except z3.Z3Exception as e:
        return Result(name, 'unknown', time.time() - t, detail='z3 exception %s' % e)
    dt = time.time() - t
    if r == z3.unsat:
        return Result(name, 'unsat', dt)
    if r == z3.sat:
        return Result(name, 'sat', dt, model=model_to_dict(s.model()))
    return Result(name, 'unknown', dt, detail=s.reason_unknown())


def smt2(formulas, logic='QF_NRA'):
    s = z3.Solver()
    for f in formulas:
        s.add(f)
    return '(set-logic %s)\n' % logic + s.to_smt2().replace('(set-info :status unknown)', '')


_XCHECK_DONE = 0


def xcheck(formulas, budget=3, tlimit=15):
    """s3.4.3: a sample of the discharged obligations is re-decided by two other solvers (z3 4.8.12 CLI, cvc5 1.0.x) on the
    exported SMT-LIB2.  Returns None when this worker's sample budget is used up."""
    global _XCHECK_DONE
    import os, subprocess, tempfile
    if _XCHECK_DONE >= budget or os.environ.get('SYMX_XCHECK', '1') == '0':
        return None
    _XCHECK_DONE += 1
    text = smt2([f for f in formulas if not z3.is_true(f)]) + '\n(check-sat)\n'
    if '(check-sat)' in text[:-14]:
        text = text[:-13]
    os.makedirs(D.RUN_DIR, exist_ok=True)
    fd, path = tempfile.mkstemp(suffix='.smt2', dir=D.RUN_DIR)
    os.write(fd, text.encode())
    os.close(fd)
    out = {}
    try:
        for name, cmd in (('z3-4.8.12', ['/usr/bin/z3', '-smt2', '-T:%d' % tlimit, path]), ('cvc5', ['cvc5', '--tlimit=%d' % (tlimit * 1000), path])):
            try:
                r = subprocess.run(cmd, capture_output=True, text=True, timeout=tlimit + 10)
                lines = [l.strip() for l in (r.stdout + r.stderr).splitlines() if l.strip()]
                if any(l.startswith('(error') for l in lines):
                    out[name] = 'error'
                elif 'unsat' in lines:
                    out[name] = 'unsat'
                elif 'sat' in lines:
                    out[name] = 'sat'
                else:
                    out[name] = 'unknown'
            except Exception:
                out[name] = 'unknown'
    finally:
        try:
            os.unlink(path)
        except OSError:
            pass
    return out
