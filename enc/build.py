"""Build cache for harness TUs.  Key = sha256(/repo/include/*.hpp + harness + symx sources + flags), so
every check recompiles against /repo's *current* working tree; an unchanged tree reuses binaries."""
import hashlib, os, subprocess, sys, glob, shutil, time, json
from concurrent.futures import ThreadPoolExecutor

VERIF = os.path.dirname(os.path.dirname(os.path.abspath(__file__)))
REPO = os.environ.get('SYMX_REPO', '/repo')
BUILD = os.environ.get('SYMX_BUILD') or os.path.join(VERIF, 'build')   # mutation tools point this into their scratch copy
CXX = 'g++'
COMMON = ['-std=c++17', '-I/usr/include/eigen3', '-I' + os.path.join(REPO, 'include'), '-w']
SYM_FLAGS = ['-O1', '-DEIGEN_INITIALIZE_MATRICES_BY_NAN']
NAT_FLAGS = ['-O2', '-ffp-contract=off', '-DEIGEN_DONT_VECTORIZE', '-DSYMX_NATIVE']

_hash = None


def headers():
    return sorted(glob.glob(os.path.join(REPO, 'include', '*.hpp')))


def tree_hash():
    global _hash
    if _hash is None:
        h = hashlib.sha256()
        for f in headers() + sorted(glob.glob(os.path.join(VERIF, 'harness', '*'))) + sorted(glob.glob(os.path.join(VERIF, 'symx', '*'))):
            h.update(f.encode())
            h.update(open(f, 'rb').read())
        h.update(' '.join(COMMON + SYM_FLAGS + NAT_FLAGS).encode())
        _hash = h.hexdigest()[:16]
    return _hash


def repo_hash():
    h = hashlib.sha256()
    for f in headers():
        h.update(open(f, 'rb').read())
    return h.hexdigest()[:16]


def check_typedefs():
    """The macro substitution covers `double` and the Eigen Matrix/Vector/Array double typedefs (symx/pre.hpp).  Any other
    fixed floating-point type used by the library text would silently stay concrete: warn."""
    import re
    bad = []
    pat = re.compile(r'\b(Affine[23]d|Projective[23]d|Isometry[23]d|Translation[23]d|AlignedBox[123X]d|Quaterniond|AngleAxisd|Rotation2Dd|long\s+double|float|(Vector|RowVector|Matrix|Array)[234X]{1,2}f)\b')
    for f in headers():
        for i, line in enumerate(open(f, errors='replace'), 1):
            code = line.split('//')[0]
            if pat.search(code):
                bad.append('%s:%d: %s' % (f, i, line.strip()))
    return bad


class TU:
    def __init__(self, src, defs, name):
        self.src, self.defs, self.name = src, defs, name

    def path(self, native):
        return os.path.join(BUILD, tree_hash(), self.name + ('.nat' if native else '.sym'))

    def cmd(self, native):
        return [CXX] + COMMON + (NAT_FLAGS if native else SYM_FLAGS) + ['-D%s=%s' % kv for kv in self.defs.items()] + \
            [os.path.join(VERIF, 'harness', self.src), '-o', self.path(native)]


def spline_tu(order, dim):
    return TU('tu_spline.cpp', {'HX_ORDER': order, 'HX_DIM': dim}, 'spline_%d_%d' % (order, dim))


def ppoly_tu(dim, pord):
    return TU('tu_ppoly.cpp', {'HX_PORD': pord, 'HX_DIM': dim}, 'ppoly_%d_%s' % (dim, 'dyn' if pord < 0 else str(pord)))


def opt_tu(order, dim, tmap='quad', smap='ident'):
    tm = {'quad': 0, 'ident': 1, 'gen': 2}[tmap]
    sm = {'ident': 0, 'gen': 1}[smap]
    return TU('tu_opt.cpp', {'HX_ORDER': order, 'HX_DIM': dim, 'HX_TMAP': tm, 'HX_SMAP': sm}, 'opt_%d_%d_%s_%s' % (order, dim, tmap, smap))


def _build_one(job):
    tu, native = job
    out = tu.path(native)
    if os.path.exists(out):
        return (out, 0.0, True)
    os.makedirs(os.path.dirname(out), exist_ok=True)
    t = time.time()
    tmp = out + '.tmp%d' % os.getpid()
    cmd = tu.cmd(native)
    cmd[-1] = tmp
    r = subprocess.run(cmd, capture_output=True, text=True)
    if r.returncode != 0:
        sys.stderr.write('BUILD FAILED: %s\n%s\n' % (' '.join(cmd), r.stderr[-4000:]))
        raise RuntimeError('build failed for ' + tu.name)
    os.replace(tmp, out)
    return (out, time.time() - t, False)


def ensure(tus, native_too=True, jobs=16):
    """Build (if missing) the recording and native binaries of the given TUs in parallel."""
    prune()
    jobl = []
    for tu in tus:
        jobl.append((tu, False))
        if native_too:
            jobl.append((tu, True))
    t = time.time()
    with ThreadPoolExecutor(max_workers=jobs) as ex:
        res = list(ex.map(_build_one, jobl))
    built = [r for r in res if not r[2]]
    return {'compiled': len(built), 'cached': len(res) - len(built), 'wall_s': round(time.time() - t, 2),
            'tree_hash': tree_hash(), 'repo_hash': repo_hash()}


def prune(keep=24):
    """Keep only the most recently used build directories (disk is limited)."""
    if not os.path.isdir(BUILD):
        return
    cur = tree_hash()
    dirs = [d for d in glob.glob(os.path.join(BUILD, '*')) if os.path.isdir(d) and len(os.path.basename(d)) == 16]
    dirs.sort(key=lambda d: os.path.getmtime(d), reverse=True)
    kept = 0
    for d in dirs:
        if os.path.basename(d) == cur:
            continue
        kept += 1
        if kept >= keep and time.time() - os.path.getmtime(d) > 4 * 3600:   # never a directory a long-running check may still be using
            shutil.rmtree(d, ignore_errors=True)
    p = os.path.join(BUILD, cur)
    if os.path.isdir(p):
        os.utime(p, None)
