import json, sys, time
from fractions import Fraction
import z3
OPS={2:lambda a,b:a+b,3:lambda a,b:a-b,4:lambda a,b:a*b,5:lambda a,b:a/b}
def Q(fr): return z3.Q(fr.numerator,fr.denominator)
def build(d, subst=None):
    terms=[None]*len(d['nodes']); vars={}
    for i,n in enumerate(d['nodes']):
        op=n[0]
        if op==0: terms[i]=Q(Fraction(float.fromhex(n[1])))
        elif op==1:
            if subst and n[1] in subst: terms[i]=Q(Fraction(subst[n[1]]))
            else:
                v=z3.Real(n[1]); vars[n[1]]=v; terms[i]=v
        elif op in OPS: terms[i]=OPS[op](terms[n[1]],terms[n[2]])
        elif op==6: terms[i]=-terms[n[1]]
        else: raise Exception(op)
    return terms,vars
def fact(n,k):
    r=1
    for j in range(k): r*=(n-j)
    return r
def polyval(cs,t,k):
    n=len(cs); acc=0
    for m in range(n-1,k-1,-1): acc=acc*t+fact(m,k)*cs[m]
    return acc
