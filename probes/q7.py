from frac import *
import os
# adjoint identity: propagateGrad == J^T [gdC;gdT], via forward-mode AD on the recorded DAG
order=int(sys.argv[1]); N=int(sys.argv[2]); to=int(sys.argv[3]); symh=[int(x) for x in sys.argv[4].split(',')] if sys.argv[4]!='all' else list(range(N))
d=json.load(open(f"g_{order}_{N}.json")); nc=order+1; s=(order+1)//2
names={n[1]:i for i,n in enumerate(d['nodes']) if n[0]==1}
hfix={f"h{i}":Fraction(3+i,2+ (i%2)) for i in range(N) if i not in symh}
class AD(Enc):
    def deriv(self, wrt):
        """forward-mode derivative pairs for all nodes w.r.t. variable named wrt"""
        D=[None]*len(self.d['nodes']); Z=(Fraction(0),{})
        for i,n in enumerate(self.d['nodes']):
            op=n[0]
            if op==0: D[i]=Z
            elif op==1: D[i]=(Fraction(1),{}) if n[1]==wrt else Z
            elif op==2: D[i]=self.add(D[n[1]],D[n[2]],1)
            elif op==3: D[i]=self.add(D[n[1]],D[n[2]],-1)
            elif op==4: D[i]=self.add(self.mul(D[n[1]],self.val[n[2]]),self.mul(self.val[n[1]],D[n[2]]),1)
            elif op==5:
                a,b=n[1],n[2]
                D[i]=self.add(self.div(D[a],self.val[b]), self.mul(self.val[i], self.div(D[b],self.val[b])),-1)
            elif op==6: D[i]=(self.tmul(-1,D[n[1]][0]),D[n[1]][1])
        return D
    def iszero(self,A): return isinstance(A[0],(Fraction,int)) and A[0]==0
# NOTE: concrete substitution of h must happen AFTER differentiation -> keep h symbolic in Enc, then substitute in z3
E=AD(d,None,inv_h=False)
out=d['outs']; ncoef=N*nc
wants=[(f"T{k}",f"h{k}") for k in range(N)]+[(f"P{i}_0",f"p{i}_0") for i in range(N+1)]+[("V0_0","v0_0"),("VN_0","vN_0")]
if order>=5: wants+= [("A0_0","a0_0"),("AN_0","aN_0")]
if order>=7: wants+= [("J0_0","j0_0"),("JN_0","jN_0")]
t00=time.time(); res={}
S=z3.Solver(); S.set("timeout",to*1000)
for k in range(N): S.add(E.vars[f"h{k}"]>0)
sub=[(E.vars[k],Q(v)) for k,v in hfix.items()]
for oname,var in wants:
    t1=time.time()
    D=E.deriv(var)
    exp=(Fraction(0),{})
    for r in range(ncoef):
        g=E.val[names[f"g{r}_0"]]
        exp=E.add(exp,E.mul(g,D[out[f"c{r}_0"]]),1)
    if var.startswith('h'): exp=E.add(exp,E.val[names["gt"+var[1:]]],1)
    goal=E.eq_goal(E.val[out[oname]],exp)
    if isinstance(goal,(Fraction,int)):
        r='unsat' if goal==0 else 'sat'
    else:
        if sub: goal=z3.substitute(goal,*sub)
        S.push(); S.add(goal!=0); r=str(S.check()); S.pop()
    res[r]=res.get(r,0)+1
    print(oname,'d/d',var,r,'%.2fs'%(time.time()-t1)); sys.stdout.flush()
print("ADJOINT order",order,"N",N,"symh",symh,res,"total %.1fs"%(time.time()-t00))
