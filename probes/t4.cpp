#include "pre.hpp"
using namespace SplineTrajectory; using symx::Sym;
constexpr int D=2;
using Opt = SplineOptimizer<D, QuinticSplineND<D>, QuadInvTimeMap, IdentitySpatialMap<D>>;
using Vec = Eigen::Matrix<Sym,D,1>;
using VX = Eigen::Matrix<Sym,-1,1>;
int calls=0;
struct TimeCost { Sym operator()(const std::vector<Sym>& Ts, VX& g) const { Sym c=Sym::var("tc",0.3); for(size_t i=0;i<Ts.size();i++) g(i)=Sym::var("tcg"+std::to_string(i),0.1); return c; } };
struct Run { Sym operator()(Sym t, Sym tg, int i, const Vec&p,const Vec&v,const Vec&a,const Vec&j,const Vec&s, Vec&gp,Vec&gv,Vec&ga,Vec&gj,Vec&gs, Sym&gt) const {
  std::string k=std::to_string(calls++);
  for(int d=0;d<D;d++){ gp(d)=Sym::var("gp"+k+"_"+std::to_string(d),0.1); gv(d)=Sym::var("gv"+k+"_"+std::to_string(d),0.2); ga(d)=Sym::var("ga"+k+"_"+std::to_string(d),0.3); gj(d)=Sym::var("gj"+k+"_"+std::to_string(d),0.1); gs(d)=Sym::var("gs"+k+"_"+std::to_string(d),0.1);} gt=Sym::var("gt"+k,0.05);
  return Sym::var("cv"+k,0.7);} };
int main(){
  int N=2; std::vector<Sym> T; for(int i=0;i<N;i++) T.push_back(Sym::var("rT"+std::to_string(i),1.0+0.5*i));
  Opt::MatrixType P(N+1,D); for(int i=0;i<=N;i++) for(int d=0;d<D;d++) P(i,d)=Sym::var("rp"+std::to_string(i)+"_"+std::to_string(d),0.3*i+d);
  BoundaryConditions<D> bc; 
  Opt opt; bool ok=opt.setInitState(T,P,Sym::var("t0",0.5),bc);
  OptimizationFlags f; f.start_v=true; f.end_p=true; f.end_a=true; opt.setOptimizationFlags(f);
  opt.setEnergyWeights(Sym::var("rho",0.5)); opt.setIntegralNumSteps(2);
  int dim=opt.getDimension();
  std::cerr<<"valid "<<ok<<" dim "<<dim<<" path "<<symx::ctx().path.size()<<"\n";
  VX x(dim), g; for(int i=0;i<dim;i++) x(i)=Sym::var("x"+std::to_string(i), i<N? 0.2-0.5*i : 0.1*i);
  Sym c=opt.evaluate(x,g,TimeCost(),Run());
  std::cerr<<"cost "<<c<<" calls "<<calls<<" nodes "<<symx::ctx().nodes.size()<<" path "<<symx::ctx().path.size()<<"\n";
  for(auto&p:symx::ctx().path) std::cerr<<p.first<<"->"<<p.second<<"; "; std::cerr<<"\n";
  auto x0=opt.generateInitialGuess(); std::cerr<<"x0 "<<x0.transpose()<<"\n";
}
