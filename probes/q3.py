import os
from q_common import *
import q_common
order=int(sys.argv[1]); N=int(sys.argv[2]); to=int(sys.argv[3]) if len(sys.argv)>3 else 60; inv=(len(sys.argv)>4 and sys.argv[4]=='inv')
d=json.load(open(f"d_{order}_{N}.json")); nc=order+1; s=(order+1)//2
allow={3:['p','v'],5:['p','v','a'],7:['p','v','a','j']}[order]
datavars=[n[1] for n in d['nodes'] if n[0]==1 and not n[1].startswith('h') and n[1]!='t0']
def build2(d,subst):
    terms=[None]*len(d['nodes']); vars={}
    for i,n in enumerate(d['nodes']):
        op=n[0]
        if op==0: terms[i]=Q(Fraction(float.fromhex(n[1])))
        elif op==1:
            if n[1] in subst: terms[i]=Q(Fraction(subst[n[1]]))
            elif n[1].startswith('h') and inv:
                v=z3.Real('x'+n[1][1:]); vars[n[1]]=v; terms[i]=1/v
            else:
                v=z3.Real(n[1]); vars[n[1]]=v; terms[i]=v
        elif op in OPS: terms[i]=OPS[op](terms[n[1]],terms[n[2]])
        elif op==6: terms[i]=-terms[n[1]]
    return terms,vars
tot=0; t00=time.time(); worst=0; res={}
for unit in datavars:
    if unit[0] not in allow: continue
    subst={v:(1 if v==unit else 0) for v in datavars}
    terms,vars=build2(d,subst); out={k:terms[v] for k,v in d['outs'].items()}
    hv=[vars[f"h{i}"] for i in range(N)]
    h=[(1/x if inv else x) for x in hv]
    goals=[]
    for i in range(N-1):
        cs=[out[f"c{i*nc+k}_0"] for k in range(nc)]; cn=[out[f"c{(i+1)*nc+k}_0"] for k in range(nc)]
        for k in range(s,2*s-1): goals.append((f"cont{k}_{i}", polyval(cs,h[i],k)==polyval(cn,0,k)))
    S=(z3.Then("simplify","purify-arith","propagate-values","solve-eqs","qfnra-nlsat").solver() if os.environ.get("NLSAT") else z3.Solver()); S.set("timeout",to*1000)
    for hh in hv: S.add(hh>0)
    S.add(z3.Or([z3.Not(g) for _,g in goals])); t1=time.time(); r=S.check(); dt=time.time()-t1; worst=max(worst,dt)
    print(unit,r,'%.2fs'%dt); sys.stdout.flush(); tot+=1; res[str(r)]=res.get(str(r),0)+1
print("order",order,"N",N,"inv",inv,"queries",tot,res,"total %.1fs worst %.1fs"%(time.time()-t00,worst))
