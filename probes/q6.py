from frac import *
import os
order=int(sys.argv[1]); N=int(sys.argv[2]); to=int(sys.argv[3]); symh=[int(x) for x in sys.argv[4].split(',')] if sys.argv[4]!='all' else list(range(N)); datamode=sys.argv[5]
d=json.load(open(f"d_{order}_{N}.json")); nc=order+1; s=(order+1)//2
allow={3:['p','v'],5:['p','v','a'],7:['p','v','a','j']}[order]
datavars=[n[1] for n in d['nodes'] if n[0]==1 and not n[1].startswith('h') and n[1]!='t0']
hfix={f"h{i}":Fraction(7+3*i*i,10+i) for i in range(N) if i not in symh}
def run(subst,label):
    t1=time.time()
    E=Enc(d,subst,inv_h=bool(os.environ.get('INV'))); out={k:E.val[v] for k,v in d['outs'].items()}
    hn={n[1]:E.val[i] for i,n in enumerate(d['nodes']) if n[0]==1 and n[1].startswith('h')}
    h=[hn[f"h{i}"] for i in range(N)]
    goals=[]
    for i in range(N-1):
        cs=[out[f"c{i*nc+k}_0"] for k in range(nc)]; cn=[out[f"c{(i+1)*nc+k}_0"] for k in range(nc)]
        for k in range(s,2*s-1):
            g=E.eq_goal(polyval(E,cs,h[i],k),polyval(E,cn,(Fraction(0),{}),k)); goals.append(g)
    S=z3.Solver(); S.set("timeout",to*1000)
    for i in symh: S.add(E.vars[f"h{i}"]>0)
    gs=[g!=0 for g in goals if not isinstance(g,(Fraction,int))]
    cst=[g for g in goals if isinstance(g,(Fraction,int))]
    assert all(c==0 for c in cst), cst
    if not gs: print(label,'trivial'); return 'unsat',0
    tb=time.time()-t1
    if os.environ.get('EACH'):
        r='unsat'
        for g in gs:
            S.push(); S.add(g); rr=S.check(); S.pop()
            if str(rr)!='unsat': r=rr
    else:
        S.add(z3.Or(gs)); r=S.check()
    dt=time.time()-t1
    print(label,r,'build %.2fs total %.2fs atoms %d'%(tb,dt,len(E.atoms))); sys.stdout.flush(); return str(r),dt
t00=time.time(); res={}; worst=0
if datamode=='sym':
    r,dt=run(dict(hfix),'symdata'); res[r]=1; worst=dt
else:
    for unit in datavars:
        if unit[0] not in allow: continue
        subst=dict(hfix); subst.update({v:(1 if v==unit else 0) for v in datavars})
        r,dt=run(subst,unit); res[r]=res.get(r,0)+1; worst=max(worst,dt)
print("order",order,"N",N,"symh",symh,datamode,res,"total %.1fs worst %.1fs"%(time.time()-t00,worst))
