// probe: recording scalar
#pragma once
#include <Eigen/Dense>
#include <array>
#include <vector>
#include <algorithm>
#include <cmath>
#include <iostream>
#include <iomanip>
#include <memory>
#include <type_traits>
#include <utility>
#include <sstream>
#include <string>
#include <map>
#include <tuple>
#include <stdexcept>
#include <cstdio>

namespace symx {
typedef double real_t;
enum Op { CONST=0, VAR, ADD, SUB, MUL, DIV, NEG, SQRT, ABS, FLOOR };
struct Node { int op; int a; int b; real_t c; std::string name; };
struct Ctx {
  std::vector<Node> nodes;
  std::map<std::tuple<int,int,int>, int> cons;
  std::map<real_t,int> consts;
  std::vector<std::pair<std::string,int>> path; // (cmp op "lt a b", taken)
  std::vector<int> forced; size_t pc = 0;
};
inline Ctx& ctx() { static Ctx c; return c; }
inline int mk_const(real_t c) {
  auto &C = ctx();
  auto it = C.consts.find(c);
  if (it != C.consts.end() && !(c==0 && std::signbit(C.nodes[it->second].c)!=std::signbit(c))) return it->second;
  C.nodes.push_back(Node{CONST,-1,-1,c,""}); int id = (int)C.nodes.size()-1; C.consts[c]=id; return id;
}
inline int mk(int op, int a, int b) {
  auto &C = ctx();
  auto k = std::make_tuple(op,a,b);
  auto it = C.cons.find(k); if (it != C.cons.end()) return it->second;
  C.nodes.push_back(Node{op,a,b,0,""}); int id=(int)C.nodes.size()-1; C.cons[k]=id; return id;
}
struct Sym {
  real_t v; int id;
  constexpr Sym() : v(0), id(-1) {}
  template <class T, class = typename std::enable_if<std::is_arithmetic<T>::value>::type>
  constexpr Sym(T x) : v((real_t)x), id(-1) {}
  constexpr Sym(real_t x, int i) : v(x), id(i) {}
  int node() const { return id >= 0 ? id : mk_const(v); }
  static Sym var(const std::string& name, real_t shadow) {
    auto &C = ctx(); C.nodes.push_back(Node{VAR,-1,-1,0,name}); return Sym(shadow,(int)C.nodes.size()-1);
  }
  constexpr Sym& operator+=(const Sym& o);
  constexpr Sym& operator-=(const Sym& o);
  constexpr Sym& operator*=(const Sym& o);
  constexpr Sym& operator/=(const Sym& o);
  explicit operator real_t() const { return v; }
};
inline Sym rt_bin(int op, const Sym&a, const Sym&b, real_t v) { return Sym(v, mk(op, a.node(), b.node())); }
constexpr Sym operator+(const Sym&a, const Sym&b){ if (__builtin_is_constant_evaluated()) return Sym(a.v+b.v,-1); return rt_bin(ADD,a,b,a.v+b.v);}
constexpr Sym operator-(const Sym&a, const Sym&b){ if (__builtin_is_constant_evaluated()) return Sym(a.v-b.v,-1); return rt_bin(SUB,a,b,a.v-b.v);}
constexpr Sym operator*(const Sym&a, const Sym&b){ if (__builtin_is_constant_evaluated()) return Sym(a.v*b.v,-1); return rt_bin(MUL,a,b,a.v*b.v);}
constexpr Sym operator/(const Sym&a, const Sym&b){ if (__builtin_is_constant_evaluated()) return Sym(a.v/b.v,-1); return rt_bin(DIV,a,b,a.v/b.v);}
inline Sym operator-(const Sym&a){ return Sym(-a.v, mk(NEG,a.node(),-1)); }
inline Sym operator+(const Sym&a){ return a; }
constexpr Sym& Sym::operator+=(const Sym& o){ *this = *this + o; return *this; }
constexpr Sym& Sym::operator-=(const Sym& o){ *this = *this - o; return *this; }
constexpr Sym& Sym::operator*=(const Sym& o){ *this = *this * o; return *this; }
constexpr Sym& Sym::operator/=(const Sym& o){ *this = *this / o; return *this; }
#define SYMX_MIXED(OPN) \
 template<class T, class=typename std::enable_if<std::is_arithmetic<T>::value>::type> constexpr Sym operator OPN(const Sym&a, T b){ return a OPN Sym(b);} \
 template<class T, class=typename std::enable_if<std::is_arithmetic<T>::value>::type> constexpr Sym operator OPN(T a, const Sym&b){ return Sym(a) OPN b;}
SYMX_MIXED(+) SYMX_MIXED(-) SYMX_MIXED(*) SYMX_MIXED(/)
inline bool branch(const char* op, const Sym&a, const Sym&b, bool shadow) {
  auto &C = ctx();
  if (a.id<0 && b.id<0) return shadow;
  bool taken = shadow;
  if (C.pc < C.forced.size()) taken = C.forced[C.pc];
  C.pc++;
  char buf[64]; snprintf(buf,sizeof buf,"%s %d %d",op,a.node(),b.node());
  C.path.push_back({buf,(int)taken});
  return taken;
}
inline bool operator<(const Sym&a,const Sym&b){ return branch("lt",a,b,a.v<b.v);}
inline bool operator<=(const Sym&a,const Sym&b){ return branch("le",a,b,a.v<=b.v);}
inline bool operator>(const Sym&a,const Sym&b){ return branch("lt",b,a,a.v>b.v);}
inline bool operator>=(const Sym&a,const Sym&b){ return branch("le",b,a,a.v>=b.v);}
inline bool operator==(const Sym&a,const Sym&b){ return branch("eq",a,b,a.v==b.v);}
inline bool operator!=(const Sym&a,const Sym&b){ return !branch("eq",a,b,a.v==b.v);}
#define SYMX_CMP(OPN) \
 template<class T, class=typename std::enable_if<std::is_arithmetic<T>::value>::type> inline bool operator OPN(const Sym&a, T b){ return a OPN Sym(b);} \
 template<class T, class=typename std::enable_if<std::is_arithmetic<T>::value>::type> inline bool operator OPN(T a, const Sym&b){ return Sym(a) OPN b;}
SYMX_CMP(<) SYMX_CMP(<=) SYMX_CMP(>) SYMX_CMP(>=) SYMX_CMP(==) SYMX_CMP(!=)
inline Sym sqrt(const Sym&a){ return Sym(std::sqrt(a.v), mk(SQRT,a.node(),-1)); }
inline Sym abs(const Sym&a){ return Sym(std::fabs(a.v), mk(ABS,a.node(),-1)); }
inline Sym fabs(const Sym&a){ return abs(a); }
struct FloorResult { Sym s; operator Sym() const { return s; } operator int() const { return (int)s.v; } };
inline FloorResult floor(const Sym&a){ return FloorResult{Sym(std::floor(a.v), mk(FLOOR,a.node(),-1))}; }
inline bool isfinite(const Sym&a){ return std::isfinite(a.v); }
inline bool isnan(const Sym&a){ return std::isnan(a.v); }
inline bool isinf(const Sym&a){ return std::isinf(a.v); }
inline std::ostream& operator<<(std::ostream&o,const Sym&a){ return o<<a.v<<"#"<<a.id; }
}
namespace std {
  inline symx::Sym sqrt(const symx::Sym&a){ return symx::sqrt(a);} 
  inline symx::Sym abs(const symx::Sym&a){ return symx::abs(a);} 
  inline symx::FloorResult floor(const symx::Sym&a){ return symx::floor(a);} 
  inline bool isfinite(const symx::Sym&a){ return symx::isfinite(a);} 
  inline std::string to_string(const symx::Sym&a){ return std::to_string(a.v);} 
}
namespace Eigen {
template<> struct NumTraits<symx::Sym> : GenericNumTraits<symx::Sym> {
  typedef symx::Sym Real; typedef symx::Sym NonInteger; typedef symx::Sym Nested; typedef symx::Sym Literal;
  enum { IsComplex=0, IsInteger=0, IsSigned=1, RequireInitialization=0, ReadCost=1, AddCost=3, MulCost=3 };
  static inline Real epsilon(){ return Real(2.220446049250313e-16);} 
  static inline Real dummy_precision(){ return Real(1e-12);} 
  static inline int digits10(){ return 15; }
};
}
