#include "sym.hpp"
#define double ::symx::Sym
#define VectorXd Matrix< ::symx::Sym, Eigen::Dynamic, 1>
#define MatrixXd Matrix< ::symx::Sym, Eigen::Dynamic, Eigen::Dynamic>
#define Matrix2d Matrix< ::symx::Sym, 2, 2>
#define Matrix3d Matrix< ::symx::Sym, 3, 3>
#include "SplineOptimizer.hpp"
#undef double
#undef VectorXd
#undef MatrixXd
#undef Matrix2d
#undef Matrix3d
#include <fstream>
namespace symx {
inline void dump(const char* file, const std::vector<std::pair<std::string,Sym>>& outs){
  std::ofstream f(file); f<<std::setprecision(17);
  auto&C=ctx();
  // intern consts for outputs first
  std::vector<std::pair<std::string,int>> o; for(auto&p:outs) o.push_back({p.first,p.second.node()});
  f<<"{\"nodes\":[";
  for(size_t i=0;i<C.nodes.size();i++){ auto&n=C.nodes[i]; if(i) f<<","; 
    if(n.op==CONST) f<<"[0,\""<<std::hexfloat<<n.c<<std::defaultfloat<<"\"]"; else if(n.op==VAR) f<<"[1,\""<<n.name<<"\"]"; else f<<"["<<n.op<<","<<n.a<<","<<n.b<<"]"; }
  f<<"],\"outs\":{"; for(size_t i=0;i<o.size();i++){ if(i) f<<","; f<<"\""<<o[i].first<<"\":"<<o[i].second; }
  f<<"},\"path\":["; for(size_t i=0;i<C.path.size();i++){ if(i) f<<","; f<<"[\""<<C.path[i].first<<"\","<<C.path[i].second<<"]"; }
  f<<"]}\n";
}
}
