#include "pre.hpp"
using namespace SplineTrajectory; using symx::Sym;
#ifndef DIM
#define DIM 1
#endif
template<class T, class=void> struct hasA: std::false_type{}; template<class T> struct hasA<T,std::void_t<decltype(std::declval<T>().a)>>: std::true_type{};
template<class T, class=void> struct hasJ: std::false_type{}; template<class T> struct hasJ<T,std::void_t<decltype(std::declval<T>().j)>>: std::true_type{};
template<class S> void run(int N, const char* out){
  std::vector<Sym> T; 
  for(int i=0;i<N;i++) T.push_back(Sym::var("h"+std::to_string(i), 0.7+0.3*i));
  typename S::MatrixType P(N+1,DIM);
  for(int i=0;i<=N;i++) for(int d=0;d<DIM;d++) P(i,d)=Sym::var("p"+std::to_string(i)+"_"+std::to_string(d), 0.1*i*i-0.3*i+d);
  BoundaryConditions<DIM> bc;
  for(int d=0;d<DIM;d++){ std::string s="_"+std::to_string(d);
   bc.start_velocity(d)=Sym::var("v0"+s,0.2); bc.end_velocity(d)=Sym::var("vN"+s,-0.4);
   bc.start_acceleration(d)=Sym::var("a0"+s,0.1); bc.end_acceleration(d)=Sym::var("aN"+s,0.3);
   bc.start_jerk(d)=Sym::var("j0"+s,-0.1); bc.end_jerk(d)=Sym::var("jN"+s,0.25);}
  S s(T,P,Sym::var("t0",1.5),bc);
  auto &C = s.getTrajectory().getCoefficients();
  std::vector<std::pair<std::string,Sym>> outs;
  for(int i=0;i<C.rows();i++) for(int d=0;d<DIM;d++) outs.push_back({"c"+std::to_string(i)+"_"+std::to_string(d), C(i,d)});
  typename S::MatrixType gdC(C.rows(),DIM); Eigen::Matrix<Sym,-1,1> gdT(N);
  for(int i=0;i<C.rows();i++) for(int d=0;d<DIM;d++) gdC(i,d)=Sym::var("g"+std::to_string(i)+"_"+std::to_string(d), 0.01*i-0.05+d*0.02);
  for(int k=0;k<N;k++) gdT(k)=Sym::var("gt"+std::to_string(k),0.3-0.1*k);
  auto G = s.propagateGrad(gdC,gdT);
  for(int k=0;k<N;k++) outs.push_back({"T"+std::to_string(k), G.times(k)});
  for(int i=0;i<N-1;i++) for(int d=0;d<DIM;d++) outs.push_back({"P"+std::to_string(i+1)+"_"+std::to_string(d), G.inner_points(i,d)});
  for(int d=0;d<DIM;d++){ std::string sd="_"+std::to_string(d);
    outs.push_back({"P0"+sd,G.start.p(d)}); outs.push_back({"P"+std::to_string(N)+sd,G.end.p(d)});
    outs.push_back({"V0"+sd,G.start.v(d)}); outs.push_back({"VN"+sd,G.end.v(d)});
    if constexpr (hasA<decltype(G.start)>::value){ outs.push_back({"A0"+sd,G.start.a(d)}); outs.push_back({"AN"+sd,G.end.a(d)}); }
    if constexpr (hasJ<decltype(G.start)>::value){ outs.push_back({"J0"+sd,G.start.j(d)}); outs.push_back({"JN"+sd,G.end.j(d)}); }
  }
  symx::dump(out, outs);
  std::cerr<<"nodes "<<symx::ctx().nodes.size()<<"\n";
}
int main(int argc,char**argv){
  int order=atoi(argv[1]), N=atoi(argv[2]);
  if(order==3) run<CubicSplineND<DIM>>(N,argv[3]);
  if(order==5) run<QuinticSplineND<DIM>>(N,argv[3]);
  if(order==7) run<SepticSplineND<DIM>>(N,argv[3]);
}
