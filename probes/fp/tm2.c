#include <assert.h>
#include <stdint.h>
#include <string.h>
double nondet_double(void);
static double toTime(double tau){ return tau > 0 ? ((0.5 * tau + 1.0) * tau + 1.0) : (1.0 / ((0.5 * tau - 1.0) * tau + 1.0)); }
static double next_up(double a){ union {double d; uint64_t u;} x; x.d=a; if(a==0.0){x.u=1; return x.d;} if(a>0) x.u+=1; else x.u-=1; return x.d; }
void adjpos(void){
  double a=nondet_double();
  __CPROVER_assume(a>0.0 && a<=1e6);
  double b=next_up(a);
  assert(toTime(a)<=toTime(b));
}
void adjneg(void){
  double a=nondet_double();
  __CPROVER_assume(a>=-1e6 && a<0.0);
  double b=next_up(a);
  assert(toTime(a)<=toTime(b));
}
