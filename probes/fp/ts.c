#include <assert.h>
#include <math.h>
double nondet_double(void);
#ifndef K
#define K 3
#endif
void seq(void){
  double start=nondet_double(), end=nondet_double(), dt=nondet_double();
  __CPROVER_assume(start>=-1e3 && start<=1e3 && end>=start && end<=1e3 && dt>=1e-3 && dt<=1e3);
  double duration=end-start;
  double q=duration/dt;
  double fl=floor(q);
  __CPROVER_assume(fl==(double)K);           /* path: num_steps == K */
  double last=start+K*dt;
  double prev=start+(K-1)*dt;
  /* contract pieces */
  assert(last-end<=1e-6);                     /* no sample beyond end by more than 1e-6 */
  assert(prev<last);                          /* strictly increasing */
  int append = fabs(last-end)>1e-6;
  if(append) assert(end>last);               /* appended end keeps it increasing */
}
