#include <assert.h>
double nondet_double(void);
static double toTime(double tau){ return tau > 0 ? ((0.5 * tau + 1.0) * tau + 1.0) : (1.0 / ((0.5 * tau - 1.0) * tau + 1.0)); }
void mono(void){
  double a=nondet_double(), b=nondet_double();
  __CPROVER_assume(a>=-1e6 && a<=1e6 && b>=-1e6 && b<=1e6 && a<b);
  double ta=toTime(a), tb=toTime(b);
#ifdef WITNESS
  assert(0);
#else
  assert(ta<=tb);
#endif
}
void pos(void){
  double a=nondet_double();
  __CPROVER_assume(a>=-1e6 && a<=1e6);
  assert(toTime(a)>0.0);
}
