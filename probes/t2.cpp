#include "pre.hpp"
using namespace SplineTrajectory; using symx::Sym;
#ifndef DIM
#define DIM 1
#endif
template<class S> void run(int N, const char* out){
  std::vector<Sym> T; 
  for(int i=0;i<N;i++) T.push_back(Sym::var("h"+std::to_string(i), 0.7+0.3*i));
  typename S::MatrixType P(N+1,DIM);
  for(int i=0;i<=N;i++) for(int d=0;d<DIM;d++) P(i,d)=Sym::var("p"+std::to_string(i)+"_"+std::to_string(d), 0.1*i*i-0.3*i+d);
  BoundaryConditions<DIM> bc;
  for(int d=0;d<DIM;d++){ std::string s="_"+std::to_string(d);
   bc.start_velocity(d)=Sym::var("v0"+s,0.2); bc.end_velocity(d)=Sym::var("vN"+s,-0.4);
   bc.start_acceleration(d)=Sym::var("a0"+s,0.1); bc.end_acceleration(d)=Sym::var("aN"+s,0.3);
   bc.start_jerk(d)=Sym::var("j0"+s,-0.1); bc.end_jerk(d)=Sym::var("jN"+s,0.25);}
  S s(T,P,Sym::var("t0",1.5),bc);
  auto &C = s.getTrajectory().getCoefficients();
  std::vector<std::pair<std::string,Sym>> outs;
  for(int i=0;i<C.rows();i++) for(int d=0;d<DIM;d++) outs.push_back({"c"+std::to_string(i)+"_"+std::to_string(d), C(i,d)});
  outs.push_back({"E", s.getEnergy()});
  auto g = s.getEnergyGrad();
  for(int i=0;i<N;i++) outs.push_back({"gT"+std::to_string(i), g.times(i)});
  for(int i=0;i<N-1;i++) for(int d=0;d<DIM;d++) outs.push_back({"gP"+std::to_string(i)+"_"+std::to_string(d), g.inner_points(i,d)});
  symx::dump(out, outs);
  std::cerr<<"nodes "<<symx::ctx().nodes.size()<<"\n";
}
int main(int argc,char**argv){
  int order=atoi(argv[1]), N=atoi(argv[2]);
  if(order==3) run<CubicSplineND<DIM>>(N,argv[3]);
  if(order==5) run<QuinticSplineND<DIM>>(N,argv[3]);
  if(order==7) run<SepticSplineND<DIM>>(N,argv[3]);
}
