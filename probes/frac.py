# fraction pairs, no division
import json, sys, time
from fractions import Fraction
import z3
def Q(fr): return z3.Q(fr.numerator,fr.denominator)
import math
def rationalize(x):
    fr=Fraction(x)
    if fr.denominator & (fr.denominator-1)==0 and fr.denominator<=2**20: return fr
    cand=fr.limit_denominator(10**6)
    if float(cand)==x: return cand
    return fr
class Enc:
    def __init__(self,d,subst=None,inv_h=False):
        self.d=d; self.vars={}; self.atoms={}  # key -> term
        self.val=[None]*len(d['nodes'])
        for i,n in enumerate(d['nodes']):
            op=n[0]
            if op==0: self.val[i]=(rationalize(float.fromhex(n[1])),{})
            elif op==1:
                if subst and n[1] in subst: self.val[i]=(Fraction(subst[n[1]]),{})
                elif inv_h and n[1].startswith('h'):
                    v=z3.Real('x'+n[1][1:]); self.vars[n[1]]=v; self.atoms[v.get_id()]=v; self.val[i]=(Fraction(1),{v.get_id():1})
                else:
                    v=z3.Real(n[1]); self.vars[n[1]]=v; self.val[i]=(v,{})
            elif op==2: self.val[i]=self.add(self.val[n[1]],self.val[n[2]],1)
            elif op==3: self.val[i]=self.add(self.val[n[1]],self.val[n[2]],-1)
            elif op==4: self.val[i]=self.mul(self.val[n[1]],self.val[n[2]])
            elif op==5: self.val[i]=self.div(self.val[n[1]],self.val[n[2]])
            elif op==6: self.val[i]=(self.tmul(-1,self.val[n[1]][0]),self.val[n[1]][1])
    # term helpers with constant folding (Fraction or z3 expr)
    def tmul(self,a,b):
        if isinstance(a,Fraction) or isinstance(a,int):
            if a==0: return Fraction(0)
            if a==1: return b
            if isinstance(b,(Fraction,int)): return Fraction(a)*b
            return Q(Fraction(a))*b
        if isinstance(b,(Fraction,int)): return self.tmul(b,a)
        return a*b
    def tadd(self,a,b,sg):
        if isinstance(a,(Fraction,int)) and isinstance(b,(Fraction,int)): return Fraction(a)+sg*Fraction(b)
        if isinstance(b,(Fraction,int)):
            if b==0: return a
            return a+Q(Fraction(sg*b))
        if isinstance(a,(Fraction,int)):
            if a==0: return b if sg==1 else -b
            return Q(Fraction(a))+b if sg==1 else Q(Fraction(a))-b
        return a+b if sg==1 else a-b
    def tpow(self,t,e):
        r=Fraction(1)
        for _ in range(e): r=self.tmul(r,t)
        return r
    def prod(self,ms):
        r=Fraction(1)
        for k,e in ms.items(): r=self.tmul(r,self.tpow(self.atoms[k],e))
        return r
    def mul(self,A,B):
        D=dict(A[1])
        for k,e in B[1].items(): D[k]=D.get(k,0)+e
        return (self.tmul(A[0],B[0]),D)
    def add(self,A,B,sg):
        if isinstance(A[0],(Fraction,int)) and A[0]==0: return (self.tmul(sg,B[0]),B[1])
        if isinstance(B[0],(Fraction,int)) and B[0]==0: return A
        L=dict(A[1])
        for k,e in B[1].items(): L[k]=max(L.get(k,0),e)
        ca={k:L[k]-A[1].get(k,0) for k in L if L[k]-A[1].get(k,0)>0}
        cb={k:L[k]-B[1].get(k,0) for k in L if L[k]-B[1].get(k,0)>0}
        return (self.tadd(self.tmul(A[0],self.prod(ca)),self.tmul(B[0],self.prod(cb)),sg),L)
    def div(self,A,B):
        # A/B = NA * prod(DB) / (prod(DA) * NB)
        nb=B[0]
        if isinstance(nb,(Fraction,int)):
            num=self.tmul(Fraction(1)/Fraction(nb),self.tmul(A[0],self.prod(B[1])) if B[1] else A[0])
            return (num,dict(A[1]))
        key=nb.get_id()
        self.atoms[key]=nb
        D=dict(A[1]); D[key]=D.get(key,0)+1
        # cancel: numerator gets prod(DB); cancel common atoms between that and D
        numms=dict(B[1])
        for k in list(numms):
            c=min(numms[k],D.get(k,0))
            if c>0:
                numms[k]-=c; D[k]-=c
                if numms[k]==0: del numms[k]
                if D[k]==0: del D[k]
        return (self.tmul(A[0],self.prod(numms)),D)
    def eq_goal(self,A,B):
        """polynomial identity equivalent to A==B given all atoms != 0"""
        X=self.add(A,B,-1)
        return X[0]  # must be == 0
def fact(n,k):
    r=1
    for j in range(k): r*=(n-j)
    return r
def polyval(E,cs,t,k):
    n=len(cs); acc=(Fraction(0),{})
    for m in range(n-1,k-1,-1):
        acc=E.add(E.mul(acc,t),E.mul((Fraction(fact(m,k)),{}),cs[m]),1)
    return acc
