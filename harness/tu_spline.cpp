// TU: spline of -DHX_ORDER={3,5,7}, -DHX_DIM=n.  usage: prog script.txt out.json
#include "vm.hpp"
#ifndef HX_ORDER
#define HX_ORDER 3
#endif
#ifndef HX_DIM
#define HX_DIM 1
#endif
#if HX_ORDER == 3
using S = CubicSplineND<HX_DIM>;
#elif HX_ORDER == 5
using S = QuinticSplineND<HX_DIM>;
#else
using S = SepticSplineND<HX_DIM>;
#endif
int main(int argc, char **argv) {
  if (argc < 3) return 2;
  VM vm;
  PPCmds<S::TrajectoryType> pp(vm);
  SplineCmds<S> sp(vm, pp);
  std::ifstream in(argv[1]);
  std::string line;
  while (std::getline(in, line)) {
    vm.lineno++;
    vm.tk = vm_tokenize(line);
    vm.tp = 0;
    if (vm.tk.empty() || vm.tk[0][0] == '#') continue;
    std::string c = vm.next();
    if (vm.core(c) || pp.run(c) || sp.run(c)) continue;
    vm.die("unknown command " + c);
  }
  vm.dump(argv[2]);
  return 0;
}
