// Optimizer commands of the scripted harness: drive the REAL SplineOptimizer<DIM, Spline, TimeMap, SpatialMap>.
// User-side pieces that the properties quantify over are supplied here:
//   * oracle cost functors: every call returns named symbolic variables for the cost value and each gradient output and
//     records the arguments it received (C07, C08, C12);  polynomial cost functors with symbolic coefficients and an
//     optional perturbation of one gradient component (C07, C19)
//   * parameterised user maps whose parameters are symbolic and are overwritten with POISON by the destructor (C09, C15)
//   * a permuting executor (C12)
#pragma once
#include "vm.hpp"

namespace hx {
inline R poison_value() {
#ifndef SYMX_NATIVE
  return symx::Sym::poison();
#else
  return std::numeric_limits<double>::quiet_NaN();
#endif
}
inline void keep_stores(void *p) { asm volatile("" : : "r"(p) : "memory"); }

struct GenTimeMap {  // T = k * tau^2 + c ; useT: the backward rule is written in terms of its T argument (valid for tau != 0)
  R k, c;
  int useT = 0;
  static R &defk() { static R v(1.0); return v; }
  static R &defc() { static R v(0.5); return v; }
  static int &defuse() { static int v = 0; return v; }
  GenTimeMap() : k(defk()), c(defc()), useT(defuse()) {}
  GenTimeMap(R k_, R c_, int u = 0) : k(k_), c(c_), useT(u) {}
  GenTimeMap(const GenTimeMap &o) : k(o.k), c(o.c), useT(o.useT) {}
  GenTimeMap &operator=(const GenTimeMap &o) { k = o.k; c = o.c; useT = o.useT; return *this; }
  ~GenTimeMap() { k = poison_value(); c = poison_value(); keep_stores(this); }
  R toTime(R tau) const { return k * tau * tau + c; }
  R toTau(R T) const { return std::sqrt((T - c) / k); }
  R backward(R tau, R T, R gradT) const { if (useT) return gradT * (2.0 * (T - c) / tau); return gradT * (2.0 * k * tau); }
};

template <int DIM> struct GenSpatialMap {
  using VX = Eigen::Matrix<R, Eigen::Dynamic, 1>;
  int mode;  // 0: p = g_i*xi + m1*shift(xi) + b with the INDEX-DEPENDENT gain g_i = m0*(1 + q*index), full dof;  1 / 3: same with dof = DIM-1 at odd / even indices;  2: p = xi + q*xi^2 (element-wise)
  R m0, m1, b, q;
  struct Def { int mode = 0; R m0 = R(1.0), m1 = R(0.0), b = R(0.0), q = R(0.0); };
  static Def &def() { static Def d; return d; }
  GenSpatialMap() : mode(def().mode), m0(def().m0), m1(def().m1), b(def().b), q(def().q) {}
  GenSpatialMap(int md, R a, R c, R d, R e) : mode(md), m0(a), m1(c), b(d), q(e) {}
  GenSpatialMap(const GenSpatialMap &o) : mode(o.mode), m0(o.m0), m1(o.m1), b(o.b), q(o.q) {}
  GenSpatialMap &operator=(const GenSpatialMap &o) { mode = o.mode; m0 = o.m0; m1 = o.m1; b = o.b; q = o.q; return *this; }
  ~GenSpatialMap() { m0 = poison_value(); m1 = poison_value(); b = poison_value(); q = poison_value(); keep_stores(this); }
  int getUnconstrainedDim(int index) const {   // mode 1: reduced at odd waypoint indices, mode 3: reduced at even ones (incl. the first waypoint)
    if ((mode == 1 && (index % 2) == 1) || (mode == 3 && (index % 2) == 0)) return std::max(1, DIM - 1);
    return DIM;
  }
  R gain(int index) const { return m0 * (1.0 + q * (double)index); }
  VX toPhysical(const VX &xi, int index) const {
    VX p(DIM);
    const int dof = (int)xi.size();
    if (mode == 2) { for (int d = 0; d < DIM; d++) p(d) = xi(d) + q * xi(d) * xi(d); return p; }
    const R gi = gain(index);
    for (int d = 0; d < DIM; d++) {
      R acc = b;
      if (d < dof) acc = acc + gi * xi(d);
      if (d >= 1 && d - 1 < dof) acc = acc + m1 * xi(d - 1);
      p(d) = acc;
    }
    return p;
  }
  VX toUnconstrained(const VX &p, int index) const {
    const int dof = getUnconstrainedDim(index);
    VX xi(dof);
    if (mode == 2) { for (int d = 0; d < dof; d++) xi(d) = p(d); return xi; }
    const R gi = gain(index);
    for (int e = 0; e < dof; e++) {
      R r = p(e) - b;
      if (e >= 1) r = r - m1 * xi(e - 1);
      xi(e) = r / gi;
    }
    return xi;
  }
  VX backwardGrad(const VX &xi, const VX &g, int index) const {
    const int dof = (int)xi.size();
    VX o(dof);
    if (mode == 2) { for (int d = 0; d < dof; d++) o(d) = g(d) * (1.0 + 2.0 * q * xi(d)); return o; }
    const R gi = gain(index);
    for (int e = 0; e < dof; e++) {
      R acc = gi * g(e);
      if (e + 1 < DIM) acc = acc + m1 * g(e + 1);
      o(e) = acc;
    }
    return o;
  }
};

// runs the segments in order and, after `at` of them, lets a complete OTHER evaluation run (a coarse interleaving of two
// evaluations that use private workspaces: what a second thread could do between two segment tasks of the first)
struct NestExecutor {
  int at;
  std::function<void()> hook;
  template <typename Func> void operator()(int start, int end, Func &&f) const {
    int done = 0;
    bool fired = false;
    for (int i = start; i < end; ++i) {
      if (done == at && !fired) { fired = true; hook(); }
      f(i);
      done++;
    }
    if (!fired) hook();
  }
};

struct PermExecutor {
  std::vector<int> order;
  template <typename Func> void operator()(int start, int end, Func &&f) const {
    for (int i : order) if (i >= start && i < end) f(i);
  }
};
}  // namespace hx

template <class S, class TM, class SM> struct OptCmds {
  static constexpr int DIM = S::VectorType::RowsAtCompileTime;
  static constexpr int ORDER = S::ORDER;
  static constexpr int NC = S::COEFF_NUM;
  using Opt = SplineOptimizer<DIM, S, TM, SM>;
  using WS = typename Opt::Workspace;
  using Mat = typename S::MatrixType;
  using Vec = typename S::VectorType;
  using VX = Eigen::Matrix<R, Eigen::Dynamic, 1>;
  static constexpr bool GEN_TM = std::is_same<TM, hx::GenTimeMap>::value;
  static constexpr bool GEN_SM = std::is_same<SM, hx::GenSpatialMap<DIM>>::value;
  VM &vm;
  SplineCmds<S> &sp;
  struct Slot { unsigned char *buf = nullptr; Opt *p = nullptr; };
  std::map<std::string, Slot> reg;
  std::map<std::string, std::unique_ptr<WS>> wsreg;
  std::map<std::string, std::unique_ptr<TM>> tmaps;
  std::map<std::string, std::unique_ptr<SM>> smaps;
  struct NestSpec { std::string obj, pre, ws, costs, tag; std::vector<R> xs; int at = 0; bool set = false; } nest;
  // polynomial cost coefficients / perturbation (C19)
  R pc[10];
  std::map<std::string, long> wcalls;
  std::string pert_which = "none"; int pert_idx = 0; R pert_delta = R(0.0);
  OptCmds(VM &v, SplineCmds<S> &s) : vm(v), sp(s) { for (auto &x : pc) x = R(0.0); }
  Opt &get(const std::string &n) {
    auto it = reg.find(n);
    if (it == reg.end() || !it->second.p) vm.die("unknown/destroyed optimizer " + n);
    return *it->second.p;
  }
  Slot &slot(const std::string &n) {
    Slot &s = reg[n];
    if (!s.buf) s.buf = static_cast<unsigned char *>(Eigen::internal::aligned_malloc(sizeof(Opt)));
    return s;
  }
  WS *wsget(const std::string &n) {
    if (n == "-") return nullptr;
    auto it = wsreg.find(n);
    if (it == wsreg.end()) vm.die("unknown workspace " + n);
    return it->second.get();
  }
  static double pseudo(const std::string &name) {
    unsigned long long h = 1469598103934665603ULL;
    for (char ch : name) { h ^= (unsigned char)ch; h *= 1099511628211ULL; }
    return ((double)(h % 2001) - 1000.0) / 1000.0 + 0.0005;
  }
  R ovar(const std::string &name) {
    auto it = vm.sc.find(name);
    if (it != vm.sc.end()) return it->second;
    R v = symx::mkvar(name, pseudo(name));
    vm.sc[name] = v;
    return v;
  }
  // ------------------------------------------------------------------ cost functors
  struct TimeF {
    OptCmds *o; std::string tag; bool poly; std::string rec;
    R operator()(const std::vector<R> &Ts, VX &grad) const {
      o->vm.iout(rec + "@Ts.n", (long)Ts.size());
      o->vm.iout(rec + "@Tg.n", (long)grad.size());
      for (size_t i = 0; i < Ts.size(); i++) o->vm.out(rec + "@Ts." + std::to_string(i), Ts[i]);
      if (poly) {
        R c(0.0);
        for (size_t i = 0; i < Ts.size(); i++) {
          c = c + o->pc[0] * Ts[i] + o->pc[1] * Ts[i] * Ts[i];
          R g = o->pc[0] + 2.0 * o->pc[1] * Ts[i];
          if (o->pert_which == "time" && o->pert_idx == (int)i) g = g + o->pert_delta;
          grad((int)i) += g;
        }
        return c;
      }
      for (size_t i = 0; i < Ts.size(); i++) grad((int)i) += o->ovar(tag + "_tg" + std::to_string(i));
      return o->ovar(tag + "_tc");
    }
  };
  struct WayF {
    OptCmds *o; std::string tag; bool poly; std::string rec;
    template <class WT, class GT> R operator()(const WT &W, GT &g) const {
      o->vm.iout(rec + "@W.rows", (long)W.rows());
      o->vm.iout(rec + "@Wg.rows", (long)g.rows());
      o->vm.iout(rec + "@W.calls", ++o->wcalls[rec]);
      for (int i = 0; i < W.rows(); i++) for (int d = 0; d < W.cols(); d++) o->vm.out(rec + "@W." + std::to_string(i) + "." + std::to_string(d), W(i, d));
      if (poly) {
        R c(0.0);
        for (int i = 0; i < W.rows(); i++) for (int d = 0; d < W.cols(); d++) {
          c = c + o->pc[2] * W(i, d) + o->pc[3] * W(i, d) * W(i, d);
          R gg = o->pc[2] + 2.0 * o->pc[3] * W(i, d);
          if (o->pert_which == "way" && o->pert_idx == i * (int)W.cols() + d) gg = gg + o->pert_delta;
          g(i, d) += gg;
        }
        return c;
      }
      for (int i = 0; i < W.rows(); i++) for (int d = 0; d < W.cols(); d++) g(i, d) += o->ovar(tag + "_wg" + std::to_string(i) + "_" + std::to_string(d));
      return o->ovar(tag + "_wc");
    }
  };
  struct IntF {
    OptCmds *o; std::string tag; bool poly; std::string rec;
    mutable std::map<int, int> counter;
    R operator()(R t, R tg, int i, const Vec &p, const Vec &v, const Vec &a, const Vec &j, const Vec &s, Vec &gp, Vec &gv, Vec &ga, Vec &gj, Vec &gs, R &gt) const {
      int k = counter[i]++;
      std::string sk = "s" + std::to_string(i) + "_k" + std::to_string(k);
      std::string n = tag + "_" + sk;      // oracle variable names: shared by evaluations that use the same tag
      std::string rn = rec + "@" + sk;    // recorded arguments: per evaluation
      VM &vm = o->vm;
      vm.iout(rn + ".i", i);
      vm.out(rn + ".t", t); vm.out(rn + ".tg", tg);
      const Vec *ar[5] = {&p, &v, &a, &j, &s};
      const char *an[5] = {"p", "v", "a", "j", "s"};
      for (int q = 0; q < 5; q++) for (int d = 0; d < DIM; d++) vm.out(rn + "." + an[q] + "." + std::to_string(d), (*ar[q])(d));
      Vec *gr[5] = {&gp, &gv, &ga, &gj, &gs};
      if (poly) {
        R c = o->pc[9] * tg;
        R scale = R(1.0 + 0.5 * i);  // the running cost depends on the segment index as well
        for (int q = 0; q < 5; q++) for (int d = 0; d < DIM; d++) {
          R x = (*ar[q])(d);
          c = c + scale * o->pc[4 + q] * x * x;
          R g = scale * 2.0 * o->pc[4 + q] * x;
          if (o->pert_which == std::string("g") + an[q] && o->pert_idx == d) g = g + o->pert_delta;
          (*gr[q])(d) += g;
        }
        R gtt = o->pc[9];
        if (o->pert_which == "gt") gtt = gtt + o->pert_delta;
        gt += gtt;
        return c;
      }
      for (int q = 0; q < 5; q++) for (int d = 0; d < DIM; d++) (*gr[q])(d) += o->ovar(n + "_g" + an[q] + std::to_string(d));
      gt += o->ovar(n + "_gt");
      return o->ovar(n + "_c");
    }
  };
  template <class SP> void outSpline(const std::string &pre, const SP &s) {
    vm.iout(pre + ".init", s.isInitialized()); vm.iout(pre + ".nseg", s.getNumSegments());
    vm.out(pre + ".start", s.getStartTime());
    vm.iout(pre + ".nseg_t", (long)s.getTimeSegments().size()); vm.outVec(pre + ".seg", s.getTimeSegments());
    vm.iout(pre + ".prows", (long)s.getSpacePoints().rows()); vm.outMat(pre + ".pts", s.getSpacePoints());
    sp.outBC(pre + ".bc", s.getBoundaryConditions());
    const auto &C = s.getTrajectory().getCoefficients();
    vm.iout(pre + ".crows", C.rows()); vm.outMat(pre + ".c", C);
  }
  template <class EX> void doEval(Opt &o, const std::string &pre, const VX &x, WS *ws, const std::string &costs, const std::string &tag, const EX &ex) {
    VX g(x.size());  // dirty (POISON) pre-sized output
    bool poly = costs[0] == 'p';
    TimeF tf{this, tag, poly, pre}; WayF wf{this, tag, poly, pre}; IntF inf{this, tag, poly, pre};
    R c;
    if (costs[1] == '3') c = o.evaluate(x, g, tf, wf, inf, ws, ex);
    else c = o.evaluate(x, g, tf, inf, ws, ex);
    vm.out(pre + ".cost", c);
    vm.iout(pre + ".ng", (long)g.size());
    for (int i = 0; i < g.size(); i++) vm.out(pre + ".g." + std::to_string(i), g(i));
  }
  bool run(const std::string &c) {
    if (c.compare(0, 4, "opt.") != 0 && c.compare(0, 3, "tm.") != 0) return false;
    if (c == "opt.new") { Slot &s = slot(vm.next()); s.p = new (s.buf) Opt(); return true; }
    if (c == "opt.copy") { std::string n = vm.next(); Opt &src = get(vm.next()); Slot &s = slot(n); s.p = new (s.buf) Opt(src); return true; }
    if (c == "opt.assign") { std::string n = vm.next(); Opt &src = get(vm.next()); get(n) = src; return true; }
    if (c == "opt.selfassign") { Opt &o = get(vm.next()); Opt *p = &o; o = *p; return true; }
    if (c == "opt.destroy") { Slot &s = reg[vm.next()]; if (s.p) { s.p->~Opt(); s.p = nullptr; } return true; }
    if (c == "opt.deftm") {
      R k = vm.nextVal(), cc = vm.nextVal();
      hx::GenTimeMap::defk() = k; hx::GenTimeMap::defc() = cc;
      return true;
    }
    if (c == "opt.defsm") {
      auto &d = hx::GenSpatialMap<DIM>::def();
      d.mode = vm.nextInt(); d.m0 = vm.nextVal(); d.m1 = vm.nextVal(); d.b = vm.nextVal(); d.q = vm.nextVal();
      return true;
    }
    if (c == "opt.tmap") {
      std::string n = vm.next();
      if constexpr (GEN_TM) { R k = vm.nextVal(), cc = vm.nextVal(); int u = vm.more() ? vm.nextInt() : 0; tmaps[n].reset(new TM(k, cc, u)); }
      else tmaps[n].reset(new TM());
      return true;
    }
    if (c == "opt.tmap.set") {
      std::string n = vm.next();
      if constexpr (GEN_TM) { TM &m = *tmaps.at(n); m.k = vm.nextVal(); m.c = vm.nextVal(); }
      return true;
    }
    if (c == "opt.smap") {
      std::string n = vm.next();
      if constexpr (GEN_SM) { int md = vm.nextInt(); R a = vm.nextVal(), b = vm.nextVal(), cc = vm.nextVal(), d = vm.nextVal(); smaps[n].reset(new SM(md, a, b, cc, d)); }
      else smaps[n].reset(new SM());
      return true;
    }
    if (c == "opt.smap.set") {
      std::string n = vm.next();
      if constexpr (GEN_SM) { SM &m = *smaps.at(n); m.mode = vm.nextInt(); m.m0 = vm.nextVal(); m.m1 = vm.nextVal(); m.b = vm.nextVal(); m.q = vm.nextVal(); }
      return true;
    }
    if (c == "opt.settmap") { Opt &o = get(vm.next()); std::string n = vm.next(); o.setTimeMap(n == "null" ? nullptr : tmaps.at(n).get()); return true; }
    if (c == "opt.setsmap") { Opt &o = get(vm.next()); std::string n = vm.next(); o.setSpatialMap(n == "null" ? nullptr : smaps.at(n).get()); return true; }
    if (c == "opt.init") {
      // opt.init O PRE dur <n> h.. <rows> p.. t0 BC     |    opt.init O PRE tp <n> t.. <rows> p.. BC
      Opt &o = get(vm.next()); std::string pre = vm.next(); std::string mode = vm.next();
      std::vector<R> ts = vm.nextCountedVec();
      Mat P = sp.readMat();
      bool ok;
      if (mode == "dur") { R t0 = vm.nextVal(); ok = o.setInitState(ts, P, t0, sp.getbc(vm.next())); }
      else ok = o.setInitState(ts, P, sp.getbc(vm.next()));
      vm.iout(pre + ".ok", ok);
      return true;
    }
    if (c == "opt.flags") {
      Opt &o = get(vm.next()); OptimizationFlags f;
      f.start_p = vm.nextInt(); f.start_v = vm.nextInt(); f.start_a = vm.nextInt(); f.start_j = vm.nextInt();
      f.end_p = vm.nextInt(); f.end_v = vm.nextInt(); f.end_a = vm.nextInt(); f.end_j = vm.nextInt();
      o.setOptimizationFlags(f);
      return true;
    }
    if (c == "opt.rho") { Opt &o = get(vm.next()); o.setEnergyWeights(vm.nextVal()); return true; }
    if (c == "opt.steps") { Opt &o = get(vm.next()); o.setIntegralNumSteps(vm.nextInt()); return true; }
    if (c == "opt.dim") { Opt &o = get(vm.next()); vm.iout(vm.next(), o.getDimension()); return true; }
    if (c == "opt.guess") {
      Opt &o = get(vm.next()); std::string pre = vm.next();
      VX x = o.generateInitialGuess();
      vm.iout(pre + ".n", (long)x.size());
      for (int i = 0; i < x.size(); i++) vm.out(pre + "." + std::to_string(i), x(i));
      return true;
    }
    if (c == "opt.valid") {
      Opt &o = get(vm.next()); std::string pre = vm.next();
      vm.iout(pre + ".isValid", o.isValid());
      vm.iout(pre + ".bool", static_cast<bool>(o) ? 1 : 0);
      vm.iout(pre + ".errEmpty", o.getLastError().empty());
      std::string msg = "untouched";
      bool ck = o.checkValidity(&msg);
      vm.iout(pre + ".check", ck);
      vm.iout(pre + ".msgEmpty", msg.empty());
      vm.iout(pre + ".check0", o.checkValidity());
      vm.iout(pre + ".errEmpty2", o.getLastError().empty());
      return true;
    }
    if (c == "opt.wsnew") { wsreg[vm.next()].reset(new WS()); return true; }
    if (c == "opt.wscopy") { std::string n = vm.next(); WS *src = wsget(vm.next()); wsreg[n].reset(new WS(*src)); return true; }
    if (c == "opt.nestspec") {
      // opt.nestspec O2 PRE2 <n> x.. WS2|- o3|o2|p3|p2 TAG2 AT : evaluation to run in the middle of the next `opt.eval ... nest`
      nest.obj = vm.next(); nest.pre = vm.next(); nest.xs = vm.nextCountedVec(); nest.ws = vm.next(); nest.costs = vm.next(); nest.tag = vm.next(); nest.at = vm.nextInt(); nest.set = true;
      return true;
    }
    if (c == "opt.eval") {
      // opt.eval O PRE <n> x.. WS|- serial|omp|perm <m> p.. o3|o2|p3|p2 TAG
      Opt &o = get(vm.next()); std::string pre = vm.next();
      std::vector<R> xs = vm.nextCountedVec();
      VX x(xs.size()); for (size_t i = 0; i < xs.size(); i++) x((int)i) = xs[i];
      WS *ws = wsget(vm.next());
      std::string ex = vm.next();
      hx::PermExecutor pe;
      if (ex == "perm") { int m = vm.nextInt(); for (int i = 0; i < m; i++) pe.order.push_back(vm.nextInt()); }
      std::string costs = vm.next(); std::string tag = vm.next();
      if (ex == "serial") doEval(o, pre, x, ws, costs, tag, SerialExecutor());
      else if (ex == "omp") doEval(o, pre, x, ws, costs, tag, OpenMPExecutor());
      else if (ex == "perm") doEval(o, pre, x, ws, costs, tag, pe);
      else if (ex == "nest") {
        if (!nest.set) vm.die("nest without nestspec");
        NestSpec ns = nest;
        hx::NestExecutor ne{ns.at, [this, ns]() {
          VX x2(ns.xs.size()); for (size_t i = 0; i < ns.xs.size(); i++) x2((int)i) = ns.xs[i];
          doEval(get(ns.obj), ns.pre, x2, wsget(ns.ws), ns.costs, ns.tag, SerialExecutor());
        }};
        doEval(o, pre, x, ws, costs, tag, ne);
      }
      else vm.die("bad executor");
      return true;
    }
    if (c == "opt.spline") {
      Opt &o = get(vm.next()); std::string pre = vm.next();
      const S *s = o.getOptimalSpline();
      vm.iout(pre + ".null", s == nullptr);
      if (s) outSpline(pre, *s);
      return true;
    }
    if (c == "opt.energy") {  // opt.energy O|ws:W NAME : getEnergy() of the exposed / workspace spline
      std::string n = vm.next(); std::string on = vm.next();
      if (n.compare(0, 3, "ws:") == 0) vm.out(on, wsget(n.substr(3))->spline.getEnergy());
      else { const S *s = get(n).getOptimalSpline(); if (!s) vm.die("no exposed spline"); vm.out(on, s->getEnergy()); }
      return true;
    }
    if (c == "opt.wsspline") { WS *w = wsget(vm.next()); std::string pre = vm.next(); outSpline(pre, w->spline); return true; }
    if (c == "opt.poly") { for (int i = 0; i < 10; i++) pc[i] = vm.nextVal(); return true; }
    if (c == "opt.perturb") { pert_which = vm.next(); pert_idx = vm.nextInt(); pert_delta = vm.nextVal(); return true; }
    if (c == "opt.checkgrad") {
      // opt.checkgrad O PRE <n> x.. WS|- p3|p2|o3|o2 TAG [eps tol]
      Opt &o = get(vm.next()); std::string pre = vm.next();
      std::vector<R> xs = vm.nextCountedVec();
      VX x(xs.size()); for (size_t i = 0; i < xs.size(); i++) x((int)i) = xs[i];
      WS *ws = wsget(vm.next());
      std::string costs = vm.next(); std::string tag = vm.next();
      bool poly = costs[0] == 'p';
      TimeF tf{this, tag, poly, pre}; WayF wf{this, tag, poly, pre}; IntF inf{this, tag, poly, pre};
      typename Opt::GradientCheckResult r;
      if (vm.more()) {
        R eps = vm.nextVal(), tol = vm.nextVal();
        r = (costs[1] == '3') ? o.checkGradients(x, tf, wf, inf, ws, eps, tol) : o.checkGradients(x, tf, inf, ws, eps, tol);
      } else r = (costs[1] == '3') ? o.checkGradients(x, tf, wf, inf, ws) : o.checkGradients(x, tf, inf, ws);
      vm.iout(pre + ".valid", r.valid);
      vm.out(pre + ".err", r.error_norm); vm.out(pre + ".rel", r.rel_error);
      vm.iout(pre + ".na", (long)r.analytical.size()); vm.iout(pre + ".nn", (long)r.numerical.size());
      for (int i = 0; i < r.analytical.size(); i++) vm.out(pre + ".an." + std::to_string(i), r.analytical(i));
      for (int i = 0; i < r.numerical.size(); i++) vm.out(pre + ".num." + std::to_string(i), r.numerical(i));
      vm.iout(pre + ".reportPassed", r.makeReport().find("PASSED") != std::string::npos);
      return true;
    }
    if (c == "tm.toTime" || c == "tm.toTau") {
      std::string kind = vm.next(); R a = vm.nextVal(); std::string n = vm.next();
      R r;
      if (kind == "quad") { QuadInvTimeMap m; r = (c == "tm.toTime") ? m.toTime(a) : m.toTau(a); }
      else if (kind == "ident") { IdentityTimeMap m; r = (c == "tm.toTime") ? m.toTime(a) : m.toTau(a); }
      else vm.die("bad map kind");
      vm.out(n, r);
      return true;
    }
    if (c == "tm.backward") {
      std::string kind = vm.next(); R tau = vm.nextVal(), T = vm.nextVal(), g = vm.nextVal(); std::string n = vm.next();
      R r;
      if (kind == "quad") { QuadInvTimeMap m; r = m.backward(tau, T, g); }
      else if (kind == "ident") { IdentityTimeMap m; r = m.backward(tau, T, g); }
      else vm.die("bad map kind");
      vm.out(n, r);
      return true;
    }
    return false;
  }
};
