// Scripted harness ("VM"): executes a scenario script against the REAL library classes.
// The script language only names symbolic inputs and calls public API entry points; all the
// arithmetic recorded comes from /repo/include/*.hpp (plus `let` lines, which build derived inputs).
#pragma once
#include "../symx/pre.hpp"

using namespace SplineTrajectory;
using symx::R;

struct VM {
  std::map<std::string, R> sc;
  std::map<std::string, int> ints;
  std::vector<std::pair<std::string, R>> outs;
  std::vector<std::pair<std::string, long>> iouts;
  std::vector<std::string> tk;
  size_t tp = 0;
  int lineno = 0;

  [[noreturn]] void die(const std::string &m) {
    std::fprintf(stderr, "vm error line %d: %s\n", lineno, m.c_str());
    std::exit(3);
  }
  const std::string &next() {
    if (tp >= tk.size()) die("missing token");
    return tk[tp++];
  }
  bool more() const { return tp < tk.size(); }
  int nextInt() {
    const std::string &s = next();
    auto it = ints.find(s);
    if (it != ints.end()) return it->second;
    char *e;
    long v = std::strtol(s.c_str(), &e, 10);
    if (*e) die("bad int " + s);
    return (int)v;
  }
  R val(const std::string &s) {
    auto it = sc.find(s);
    if (it != sc.end()) return it->second;
    char *e;
    double v = std::strtod(s.c_str(), &e);
    if (*e || e == s.c_str()) die("unknown scalar " + s);
    return R(v);
  }
  R nextVal() { return val(next()); }
  std::vector<R> nextVec(int n) {
    std::vector<R> v;
    v.reserve(n);
    for (int i = 0; i < n; i++) v.push_back(nextVal());
    return v;
  }
  std::vector<R> nextCountedVec() {
    int n = nextInt();
    return nextVec(n);
  }
  void out(const std::string &n, const R &x) { outs.push_back({n, x}); }
  void iout(const std::string &n, long x) { iouts.push_back({n, x}); }
  template <class V> void outVec(const std::string &p, const V &v) {
    for (int i = 0; i < (int)v.size(); i++) out(p + "." + std::to_string(i), v[i]);
  }
  template <class M> void outMat(const std::string &p, const M &m) {
    for (int i = 0; i < (int)m.rows(); i++)
      for (int j = 0; j < (int)m.cols(); j++) out(p + "." + std::to_string(i) + "." + std::to_string(j), m(i, j));
  }

  bool core(const std::string &c) {
    if (c == "var") {
      std::string n = next();
      double sh = std::strtod(next().c_str(), nullptr);
      sc[n] = symx::mkvar(n, sh);
      return true;
    }
    if (c == "const") {
      std::string n = next();
      sc[n] = R(std::strtod(next().c_str(), nullptr));
      return true;
    }
    if (c == "let") {
      std::string n = next(), op = next();
      R a = nextVal();
      if (op == "neg") { sc[n] = -a; return true; }
      if (op == "id") { sc[n] = a; return true; }
      R b = nextVal();
      if (op == "add") sc[n] = a + b;
      else if (op == "sub") sc[n] = a - b;
      else if (op == "mul") sc[n] = a * b;
      else if (op == "div") sc[n] = a / b;
      else die("bad let op");
      return true;
    }
    if (c == "int") {
      std::string n = next();
      ints[n] = nextInt();
      return true;
    }
    if (c == "out") {
      std::string n = next();
      out(n, nextVal());
      return true;
    }
    if (c == "bind") {  // bind NAME OUTNAME : make an earlier output available as an input scalar
      std::string n = next(), o = next();
      for (size_t i = outs.size(); i-- > 0;)
        if (outs[i].first == o) { sc[n] = outs[i].second; return true; }
      die("bind: unknown out " + o);
    }
    if (c == "bindopt") {  // like bind, but silently skips when the out does not exist on this path
      std::string n = next(), o = next();
      for (size_t i = outs.size(); i-- > 0;)
        if (outs[i].first == o) { sc[n] = outs[i].second; return true; }
      sc.erase(n);
      return true;
    }
    if (c == "decisions") {
#ifndef SYMX_NATIVE
      while (more()) symx::ctx().forced.push_back(std::strtol(next().c_str(), nullptr, 10));
#else
      while (more()) next();
#endif
      return true;
    }
    return false;
  }

  // ------------------------------------------------------------------ dump
  static std::string hex(double v) {
    char b[64];
    if (v != v) return "nan";
    if (std::isinf(v)) return v > 0 ? "inf" : "-inf";
    std::snprintf(b, sizeof b, "%a", v);
    return b;
  }
  void dump(const char *file) {
    std::ofstream f(file);
#ifndef SYMX_NATIVE
    auto &C = symx::ctx();
    std::vector<int> onodes;
    for (auto &p : outs) onodes.push_back(p.second.node());
    f << "{\"mode\":\"sym\",\"nodes\":[";
    for (size_t i = 0; i < C.nodes.size(); i++) {
      auto &n = C.nodes[i];
      if (i) f << ",";
      if (n.op == symx::CONST) f << "[0,\"" << hex(n.c) << "\"]";
      else if (n.op == symx::VAR) f << "[1,\"" << n.name << "\"]";
      else f << "[" << n.op << "," << n.a << "," << n.b << "]";
    }
    f << "],\"outs\":{";
    for (size_t i = 0; i < outs.size(); i++) {
      if (i) f << ",";
      f << "\"" << outs[i].first << "\":[" << onodes[i] << ",\"" << hex(outs[i].second.v) << "\"]";
    }
    f << "},\"path\":[";
    for (size_t i = 0; i < C.path.size(); i++) {
      if (i) f << ",";
      f << "[\"" << C.path[i].kind << "\"," << C.path[i].a << "," << C.path[i].b << "," << C.path[i].outcome << "]";
    }
    f << "],";
#else
    f << "{\"mode\":\"native\",\"outs\":{";
    for (size_t i = 0; i < outs.size(); i++) {
      if (i) f << ",";
      f << "\"" << outs[i].first << "\":\"" << hex(outs[i].second) << "\"";
    }
    f << "},";
#endif
    f << "\"ints\":{";
    for (size_t i = 0; i < iouts.size(); i++) {
      if (i) f << ",";
      f << "\"" << iouts[i].first << "\":" << iouts[i].second;
    }
    f << "}}\n";
  }
};

// ---------------------------------------------------------------------- PPoly commands
template <class PP> struct PPCmds {
  static constexpr int DIM = PP::VectorType::RowsAtCompileTime;
  using Mat = typename PP::MatrixType;
  using Vec = typename PP::VectorType;
  VM &vm;
  std::map<std::string, std::unique_ptr<PP>> reg;
  std::map<std::string, const PP *> refs;   // references held by the caller (e.g. `const auto &tr = spline.getTrajectory();`)
  explicit PPCmds(VM &v) : vm(v) {}
  PP &get(const std::string &n) {
    auto ir = refs.find(n);
    if (ir != refs.end()) return const_cast<PP &>(*ir->second);
    auto it = reg.find(n);
    if (it == reg.end() || !it->second) vm.die("unknown ppoly " + n);
    return *it->second;
  }
  Mat readMat() {
    int rows = vm.nextInt();
    Mat m(rows, DIM);
    for (int i = 0; i < rows; i++)
      for (int d = 0; d < DIM; d++) m(i, d) = vm.nextVal();
    return m;
  }
  void outV(const std::string &p, const Vec &v) {
    for (int d = 0; d < DIM; d++) vm.out(p + "." + std::to_string(d), v(d));
  }
  bool run(const std::string &c) {
    if (c == "pp.default") { reg[vm.next()].reset(new PP()); return true; }
    if (c == "pp.new" || c == "pp.update") {
      std::string n = vm.next();
      std::vector<R> bp = vm.nextCountedVec();
      Mat m = readMat();
      int nc = vm.nextInt();
      if (c == "pp.new") reg[n].reset(new PP(bp, m, nc));
      else get(n).update(bp, m, nc);
      return true;
    }
    if (c == "pp.copy") { std::string n = vm.next(); PP &s = get(vm.next()); reg[n].reset(new PP(s)); return true; }
    if (c == "pp.movector") { std::string n = vm.next(); PP &s = get(vm.next()); PP tmp(s); reg[n].reset(new PP(std::move(tmp))); return true; }   // move construction from a (warm) temporary copy
    if (c == "pp.assign") { std::string n = vm.next(); PP &s = get(vm.next()); get(n) = s; return true; }
    if (c == "pp.moveassign") { std::string n = vm.next(); PP &s = get(vm.next()); get(n) = PP(s); return true; }          // assignment from an rvalue
    if (c == "pp.assignderiv") { std::string n = vm.next(); PP &s = get(vm.next()); int k = vm.nextInt(); get(n) = s.derivative(k); return true; }
    if (c == "pp.selfassign") { PP &s = get(vm.next()); PP *p = &s; s = *p; return true; }
    if (c == "pp.destroy") { reg.erase(vm.next()); return true; }
    if (c == "pp.eval" || c == "pp.evalE") {
      PP &p = get(vm.next()); R t = vm.nextVal(); int k = vm.nextInt(); std::string pre = vm.next();
      outV(pre, c == "pp.eval" ? p.evaluate(t, k) : p.evaluate(t, static_cast<Deriv>(k)));
      return true;
    }
    if (c == "pp.evaldef") { PP &p = get(vm.next()); R t = vm.nextVal(); outV(vm.next(), p.evaluate(t)); return true; }
    if (c == "pp.evalh" || c == "pp.evalhE") {
      PP &p = get(vm.next()); R t = vm.nextVal(); std::string h = vm.next(); int k = vm.nextInt(); std::string pre = vm.next();
      int *hp = nullptr;
      if (h != "null") { if (!vm.ints.count(h)) vm.die("unknown hint"); hp = &vm.ints[h]; }
      outV(pre, c == "pp.evalh" ? p.evaluate(t, hp, k) : p.evaluate(t, hp, static_cast<Deriv>(k)));
      if (hp) vm.iout(pre + ".hint", *hp);
      return true;
    }
    if (c == "pp.batch" || c == "pp.batchE") {
      PP &p = get(vm.next()); int k = vm.nextInt(); std::string pre = vm.next();
      std::vector<R> ts = vm.nextCountedVec();
      auto res = (c == "pp.batch") ? p.evaluate(ts, k) : p.evaluate(ts, static_cast<Deriv>(k));
      vm.iout(pre + ".n", (long)res.size());
      for (size_t i = 0; i < res.size(); i++) outV(pre + "." + std::to_string(i), res[i]);
      return true;
    }
    if (c == "pp.norm") {  // pp.norm NAME v_0 .. v_{DIM-1} : Eigen's own norm() of a DIM-vector (same reduction order as the library's calls)
      std::string n = vm.next(); Vec v; bool ok = true;
      for (int d = 0; d < DIM; d++) { std::string tkn = vm.next(); bool found = false;
        for (size_t j = vm.outs.size(); j-- > 0;) if (vm.outs[j].first == tkn) { v(d) = vm.outs[j].second; found = true; break; }
        if (!found) ok = false; }
      if (ok) { vm.sc[n] = v.norm(); vm.out(n, vm.sc[n]); }
      return true;
    }
    if (c == "pp.evalopt") {  // evaluate only if the time scalar is bound (bindopt)
      PP &p = get(vm.next()); std::string tn = vm.next(); int k = vm.nextInt(); std::string pre = vm.next();
      if (vm.sc.count(tn)) outV(pre, p.evaluate(vm.sc[tn], k));
      return true;
    }
    if (c == "pp.batchseq") {  // batch evaluation over an earlier generated sequence (outs <SEQ>.0 .. <SEQ>.n-1)
      PP &p = get(vm.next()); int k = vm.nextInt(); std::string pre = vm.next(); std::string seq = vm.next();
      std::vector<R> ts;
      for (int i = 0;; i++) {
        std::string key = seq + "." + std::to_string(i);
        bool found = false;
        for (size_t j = vm.outs.size(); j-- > 0;)
          if (vm.outs[j].first == key) { ts.push_back(vm.outs[j].second); found = true; break; }
        if (!found) break;
      }
      auto res = p.evaluate(ts, k);
      vm.iout(pre + ".n", (long)res.size());
      for (size_t i = 0; i < res.size(); i++) outV(pre + "." + std::to_string(i), res[i]);
      return true;
    }
    if (c == "pp.seg" || c == "pp.segE") {
      PP &p = get(vm.next()); std::string how = vm.next(); int i = vm.nextInt(); R tl = vm.nextVal(); int k = vm.nextInt(); std::string pre = vm.next();
      bool E = (c == "pp.segE");
      auto ev = [&](const typename PP::Segment &s) { return E ? s.evaluate(tl, static_cast<Deriv>(k)) : s.evaluate(tl, k); };
      if (how == "idx") outV(pre, ev(p[i]));
      else if (how == "at") outV(pre, ev(p.at(i)));
      else if (how == "iter") { auto it = p.begin(); for (int j = 0; j < i; j++) ++it; outV(pre, ev(*it)); }
      else if (how == "arrow") { auto it = p.begin() + i; outV(pre, E ? it->evaluate(tl, static_cast<Deriv>(k)) : it->evaluate(tl, k)); }
      else if (how == "back") { auto it = p.end(); for (int j = p.getNumSegments(); j > i; j--) it--; outV(pre, ev(*it)); }
      else vm.die("bad seg route");
      return true;
    }
    if (c == "pp.segmeta") {
      PP &p = get(vm.next()); int i = vm.nextInt(); std::string pre = vm.next();
      auto s = p[i];
      vm.out(pre + ".start", s.startTime()); vm.out(pre + ".end", s.endTime()); vm.out(pre + ".dur", s.duration());
      vm.iout(pre + ".index", s.index());
      auto cb = s.getCoeffs();
      vm.iout(pre + ".crows", cb.rows());
      for (int r = 0; r < cb.rows(); r++) for (int d = 0; d < DIM; d++) vm.out(pre + ".c." + std::to_string(r) + "." + std::to_string(d), cb(r, d));
      return true;
    }
    if (c == "pp.iterall") {
      PP &p = get(vm.next()); std::string pre = vm.next();
      int cnt = 0;
      for (auto it = p.begin(); it != p.end(); ++it) { vm.iout(pre + ".idx." + std::to_string(cnt), (*it).index()); cnt++; }
      vm.iout(pre + ".count", cnt);
      vm.iout(pre + ".dist", (long)(p.end() - p.begin()));
      return true;
    }
    if (c == "pp.iterops") {  // every operator of the segment iterator, reported as plain integers
      PP &p = get(vm.next()); std::string pre = vm.next();
      const int N = p.getNumSegments();
      for (int i = 0; i <= N; i++)
        for (int j = 0; j <= N; j++) {
          auto a = p.begin() + i, b = p.begin() + j;
          vm.iout(pre + ".diff." + std::to_string(i) + "." + std::to_string(j), (long)(a - b));
          vm.iout(pre + ".eq." + std::to_string(i) + "." + std::to_string(j), a == b);
          vm.iout(pre + ".ne." + std::to_string(i) + "." + std::to_string(j), a != b);
        }
      for (int i = 0; i < N; i++) {
        auto it = p.begin() + i;
        auto old = it++;
        vm.iout(pre + ".postinc.old." + std::to_string(i), (*old).index()); vm.iout(pre + ".postinc.new." + std::to_string(i), (long)(it - p.begin()));
        auto it2 = p.begin() + (i + 1);
        auto old2 = it2--;
        vm.iout(pre + ".postdec.old." + std::to_string(i), (long)(old2 - p.begin())); vm.iout(pre + ".postdec.new." + std::to_string(i), (*it2).index());
        auto it3 = p.begin() + i; ++it3; vm.iout(pre + ".preinc." + std::to_string(i), (long)(it3 - p.begin()));
        auto it4 = p.begin() + (i + 1); --it4; vm.iout(pre + ".predec." + std::to_string(i), it4->index());
        vm.iout(pre + ".arrow." + std::to_string(i), (p.begin() + i)->index());
      }
      vm.iout(pre + ".enddist", (long)(p.end() - p.begin()));
      PP other(p);
      vm.iout(pre + ".otherparent.eq", p.begin() == other.begin());
      vm.iout(pre + ".otherparent.ne", p.begin() != other.begin());
      return true;
    }
    if (c == "pp.at") {
      PP &p = get(vm.next()); int i = vm.nextInt(); std::string n = vm.next();
      long threw = 0;
      try { auto s = p.at(i); vm.iout(n + ".index", s.index()); } catch (const std::out_of_range &) { threw = 1; } catch (...) { threw = 2; }
      vm.iout(n + ".threw", threw);
      return true;
    }
    if (c == "pp.deriv") { std::string n = vm.next(); PP &s = get(vm.next()); int k = vm.nextInt(); reg[n].reset(new PP(s.derivative(k))); return true; }
    if (c == "pp.deriv1") { std::string n = vm.next(); PP &s = get(vm.next()); reg[n].reset(new PP(s.derivative())); return true; }
    if (c == "pp.zero") { std::string n = vm.next(); std::vector<R> bp = vm.nextCountedVec(); int nc = vm.nextInt(); reg[n].reset(new PP(nc < 0 ? PP::zero(bp) : PP::zero(bp, nc))); return true; }
    if (c == "pp.constant") { std::string n = vm.next(); std::vector<R> bp = vm.nextCountedVec(); Vec v; for (int d = 0; d < DIM; d++) v(d) = vm.nextVal(); reg[n].reset(new PP(PP::constant(bp, v))); return true; }
    if (c == "pp.tseq" || c == "pp.tseq1") {
      PP &p = get(vm.next());
      std::vector<R> seq;
      if (c == "pp.tseq") { R a = vm.nextVal(), b = vm.nextVal(), dt = vm.nextVal(); seq = p.generateTimeSequence(a, b, dt); }
      else { R dt = vm.nextVal(); seq = p.generateTimeSequence(dt); }
      std::string pre = vm.next();
      vm.iout(pre + ".n", (long)seq.size());
      vm.outVec(pre, seq);
      return true;
    }
    if (c == "pp.len" || c == "pp.len1" || c == "pp.len0") {
      PP &p = get(vm.next());
      R L;
      if (c == "pp.len") { R a = vm.nextVal(), b = vm.nextVal(), dt = vm.nextVal(); L = p.getTrajectoryLength(a, b, dt); }
      else if (c == "pp.len1") { R dt = vm.nextVal(); L = p.getTrajectoryLength(dt); }
      else L = p.getTrajectoryLength();
      vm.out(vm.next(), L);
      return true;
    }
    if (c == "pp.meta") {
      PP &p = get(vm.next()); std::string pre = vm.next();
      vm.iout(pre + ".init", p.isInitialized()); vm.iout(pre + ".nseg", p.getNumSegments()); vm.iout(pre + ".ncoef", p.getNumCoeffs());
      vm.iout(pre + ".degree", p.getDegree()); vm.iout(pre + ".dim", p.getDimension());
      vm.out(pre + ".start", p.getStartTime()); vm.out(pre + ".end", p.getEndTime()); vm.out(pre + ".dur", p.getDuration());
      vm.iout(pre + ".nbp", (long)p.getBreakpoints().size());
      vm.outVec(pre + ".bp", p.getBreakpoints());
      vm.iout(pre + ".crows", p.getCoefficients().rows());
      vm.outMat(pre + ".c", p.getCoefficients());
      return true;
    }
    return false;
  }
};

// ---------------------------------------------------------------------- Spline commands
template <class S> struct SplineCmds {
  static constexpr int DIM = S::VectorType::RowsAtCompileTime;
  static constexpr int ORDER = S::ORDER;
  static constexpr int NC = S::COEFF_NUM;
  using Mat = typename S::MatrixType;
  using Vec = typename S::VectorType;
  using VX = Eigen::Matrix<R, Eigen::Dynamic, 1>;
  using PP = typename S::TrajectoryType;
  VM &vm;
  PPCmds<PP> &pp;
  std::map<std::string, std::unique_ptr<S>> reg;
  std::map<std::string, BoundaryConditions<DIM>> bcs;
  std::map<std::string, typename S::Gradients> gradreg;  // reused output structs for the reference overloads
  SplineCmds(VM &v, PPCmds<PP> &p) : vm(v), pp(p) {}
  S &get(const std::string &n) {
    auto it = reg.find(n);
    if (it == reg.end() || !it->second) vm.die("unknown spline " + n);
    return *it->second;
  }
  Vec readVec() { Vec v; for (int d = 0; d < DIM; d++) v(d) = vm.nextVal(); return v; }
  Mat readMat() {
    int rows = vm.nextInt();
    Mat m(rows, DIM);
    for (int i = 0; i < rows; i++) for (int d = 0; d < DIM; d++) m(i, d) = vm.nextVal();
    return m;
  }
  void outV(const std::string &p, const Vec &v) { for (int d = 0; d < DIM; d++) vm.out(p + "." + std::to_string(d), v(d)); }
  BoundaryConditions<DIM> &getbc(const std::string &n) {
    auto it = bcs.find(n);
    if (it == bcs.end()) vm.die("unknown bc " + n);
    return it->second;
  }
  template <class BG> void outBG(const std::string &p, const BG &g) {
    outV(p + ".p", g.p); outV(p + ".v", g.v);
    if constexpr (ORDER >= 5) outV(p + ".a", g.a);
    if constexpr (ORDER >= 7) outV(p + ".j", g.j);
  }
  void outGrads(const std::string &p, const typename S::Gradients &g) {
    vm.iout(p + ".nT", g.times.size()); vm.iout(p + ".nP", g.inner_points.rows());
    for (int k = 0; k < g.times.size(); k++) vm.out(p + ".T." + std::to_string(k), g.times(k));
    vm.outMat(p + ".P", g.inner_points);
    outBG(p + ".s", g.start); outBG(p + ".e", g.end);
  }
  void outBC(const std::string &p, const BoundaryConditions<DIM> &b) {
    outV(p + ".sv", b.start_velocity); outV(p + ".sa", b.start_acceleration); outV(p + ".sj", b.start_jerk);
    outV(p + ".ev", b.end_velocity); outV(p + ".ea", b.end_acceleration); outV(p + ".ej", b.end_jerk);
  }
  bool run(const std::string &c) {
    if (c == "bc") {
      std::string n = vm.next(); std::string kind = vm.next();
      if (kind == "0") bcs[n] = BoundaryConditions<DIM>();
      else if (kind == "2") { Vec a = readVec(), b = readVec(); bcs[n] = BoundaryConditions<DIM>(a, b); }
      else if (kind == "4") { Vec a = readVec(), b = readVec(), c2 = readVec(), d = readVec(); bcs[n] = BoundaryConditions<DIM>(a, b, c2, d); }
      else if (kind == "6") { Vec a = readVec(), b = readVec(), c2 = readVec(), d = readVec(), e = readVec(), f = readVec(); bcs[n] = BoundaryConditions<DIM>(a, b, c2, d, e, f); }
      else if (kind == "f") {  // fields: sv sa sj ev ea ej
        BoundaryConditions<DIM> b;
        b.start_velocity = readVec(); b.start_acceleration = readVec(); b.start_jerk = readVec();
        b.end_velocity = readVec(); b.end_acceleration = readVec(); b.end_jerk = readVec();
        bcs[n] = b;
      } else vm.die("bad bc kind");
      return true;
    }
    if (c == "bc.out") { std::string n = vm.next(); outBC(vm.next(), getbc(n)); return true; }
    if (c == "sp.default") { reg[vm.next()].reset(new S()); return true; }
    if (c == "sp.new" || c == "sp.update") {
      // sp.new S dur <n> h.. <rows> p.. t0 BC|-      (BC "-" = use the default argument)
      // sp.new S tp  <n> t.. <rows> p.. BC|-
      std::string n = vm.next(); std::string mode = vm.next();
      std::vector<R> ts = vm.nextCountedVec();
      Mat P = readMat();
      if (mode == "dur") {
        R t0 = vm.nextVal(); std::string b = vm.next();
        if (c == "sp.new") { if (b == "-") reg[n].reset(new S(ts, P, t0)); else reg[n].reset(new S(ts, P, t0, getbc(b))); }
        else { if (b == "-") get(n).update(ts, P, t0); else get(n).update(ts, P, t0, getbc(b)); }
      } else if (mode == "tp") {
        std::string b = vm.next();
        if (c == "sp.new") { if (b == "-") reg[n].reset(new S(ts, P)); else reg[n].reset(new S(ts, P, getbc(b))); }
        else { if (b == "-") get(n).update(ts, P); else get(n).update(ts, P, getbc(b)); }
      } else vm.die("bad time mode");
      return true;
    }
    if (c == "sp.copy") { std::string n = vm.next(); S &s = get(vm.next()); reg[n].reset(new S(s)); return true; }
    if (c == "sp.assign") { std::string n = vm.next(); S &s = get(vm.next()); get(n) = s; return true; }
    if (c == "sp.moveassign") { std::string n = vm.next(); S &s = get(vm.next()); get(n) = S(s); return true; }
    if (c == "sp.selfassign") { S &s = get(vm.next()); S *p = &s; s = *p; return true; }
    if (c == "sp.destroy") { reg.erase(vm.next()); return true; }
    if (c == "sp.coeffs") {
      S &s = get(vm.next()); std::string pre = vm.next();
      const auto &C = s.getTrajectory().getCoefficients();
      vm.iout(pre + ".rows", C.rows());
      vm.outMat(pre, C);
      return true;
    }
    if (c == "sp.meta") {
      S &s = get(vm.next()); std::string pre = vm.next();
      vm.iout(pre + ".init", s.isInitialized()); vm.iout(pre + ".dim", s.getDimension()); vm.iout(pre + ".nseg", s.getNumSegments());
      vm.iout(pre + ".npts", (long)s.getNumPoints());
      vm.out(pre + ".start", s.getStartTime()); vm.out(pre + ".end", s.getEndTime()); vm.out(pre + ".dur", s.getDuration());
      vm.iout(pre + ".ncum", (long)s.getCumulativeTimes().size()); vm.outVec(pre + ".cum", s.getCumulativeTimes());
      vm.iout(pre + ".nseg_t", (long)s.getTimeSegments().size()); vm.outVec(pre + ".seg", s.getTimeSegments());
      vm.outMat(pre + ".pts", s.getSpacePoints());
      outBC(pre + ".bc", s.getBoundaryConditions());
      const PP &t = s.getTrajectory();
      vm.iout(pre + ".tr.init", t.isInitialized()); vm.iout(pre + ".tr.nseg", t.getNumSegments()); vm.iout(pre + ".tr.ncoef", t.getNumCoeffs());
      vm.out(pre + ".tr.start", t.getStartTime()); vm.out(pre + ".tr.end", t.getEndTime()); vm.out(pre + ".tr.dur", t.getDuration());
      vm.iout(pre + ".tr.nbp", (long)t.getBreakpoints().size()); vm.outVec(pre + ".tr.bp", t.getBreakpoints());
      return true;
    }
    if (c == "sp.energy") { S &s = get(vm.next()); vm.out(vm.next(), s.getEnergy()); return true; }
    if (c == "sp.egrad") {
      // sp.egrad S PREFIX val|ref|parts [GNAME]
      S &s = get(vm.next()); std::string pre = vm.next(); std::string how = vm.next();
      if (how == "val") outGrads(pre, s.getEnergyGrad());
      else if (how == "ref") { auto &g = gradreg[vm.next()]; s.getEnergyGrad(g); outGrads(pre, g); }
      else if (how == "parts") {
        typename S::Gradients g;
        g.times = s.getEnergyGradTimes(); g.inner_points = s.getEnergyGradInnerPoints();
        auto b = s.getEnergyGradBoundary(); g.start = b.start; g.end = b.end;
        outGrads(pre, g);
      } else vm.die("bad egrad route");
      return true;
    }
    if (c == "sp.partials") {
      // sp.partials S PREFIX val|ref
      S &s = get(vm.next()); std::string pre = vm.next(); std::string how = vm.next();
      Mat gdC; VX gdT;
      if (how == "val") { gdC = s.getEnergyPartialGradByCoeffs(); gdT = s.getEnergyPartialGradByTimes(); }
      else if (how == "refdirty") {  // caller's buffers already have the final size and hold unrelated (uninitialised) data
        gdC.resize(s.getNumSegments() * NC, DIM); gdT.resize(s.getNumSegments());
        s.getEnergyPartialGradByCoeffs(gdC); s.getEnergyPartialGradByTimes(gdT);
      }
      else { s.getEnergyPartialGradByCoeffs(gdC); s.getEnergyPartialGradByTimes(gdT); }
      vm.iout(pre + ".Crows", gdC.rows()); vm.iout(pre + ".nT", gdT.size());
      vm.outMat(pre + ".C", gdC);
      for (int k = 0; k < gdT.size(); k++) vm.out(pre + ".T." + std::to_string(k), gdT(k));
      return true;
    }
    if (c == "sp.prop") {
      // sp.prop S PREFIX val|ref [GNAME] partials | <rows> gdC.. <n> gdT..
      S &s = get(vm.next()); std::string pre = vm.next(); std::string how = vm.next();
      std::string gname; if (how == "ref") gname = vm.next();
      Mat gdC; VX gdT;
      if (vm.tk[vm.tp] == "partials") { vm.next(); gdC = s.getEnergyPartialGradByCoeffs(); gdT = s.getEnergyPartialGradByTimes(); }
      else { gdC = readMat(); std::vector<R> t = vm.nextCountedVec(); gdT.resize(t.size()); for (size_t i = 0; i < t.size(); i++) gdT(i) = t[i]; }
      if (how == "val") outGrads(pre, s.propagateGrad(gdC, gdT));
      else { auto &g = gradreg[gname]; s.propagateGrad(gdC, gdT, g); outGrads(pre, g); }
      return true;
    }
    if (c == "sp.eval") { S &s = get(vm.next()); R t = vm.nextVal(); int k = vm.nextInt(); outV(vm.next(), s.getTrajectory().evaluate(t, k)); return true; }
    if (c == "sp.seg") { S &s = get(vm.next()); int i = vm.nextInt(); R tl = vm.nextVal(); int k = vm.nextInt(); outV(vm.next(), s.getTrajectory()[i].evaluate(tl, k)); return true; }
    if (c == "sp.traj") {  // sp.traj P S ref|copy|ppoly|ppolycopy : bind a copy of the exposed trajectory as ppoly P
      std::string n = vm.next(); S &s = get(vm.next()); std::string how = vm.next();
      if (how == "ref") pp.reg[n].reset(new PP(s.getTrajectory()));
      else if (how == "copy") pp.reg[n].reset(new PP(s.getTrajectoryCopy()));
      else if (how == "ppoly") pp.reg[n].reset(new PP(s.getPPoly()));
      else pp.reg[n].reset(new PP(s.getPPolyCopy()));
      return true;
    }
    if (c == "sp.trajref") {  // sp.trajref P S : keep a REFERENCE to the exposed trajectory (not a copy)
      std::string n = vm.next(); S &s = get(vm.next());
      pp.refs[n] = &s.getTrajectory();
      return true;
    }
    if (c == "sp.basis") {
      R t = vm.nextVal(); std::string pre = vm.next();
      Eigen::Matrix<R, 1, NC> b[6];
      S::computeBasisFunctions(t, b[0], b[1], b[2], b[3], b[4], b[5]);
      for (int k = 0; k < 6; k++) for (int m = 0; m < NC; m++) vm.out(pre + "." + std::to_string(k) + "." + std::to_string(m), b[k](m));
      return true;
    }
    return false;
  }
};

inline std::vector<std::string> vm_tokenize(const std::string &line) {
  std::vector<std::string> t;
  std::istringstream is(line);
  std::string w;
  while (is >> w) t.push_back(w);
  return t;
}
