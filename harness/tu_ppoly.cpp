// TU: PPolyND<HX_DIM, HX_PORD> (PORD = -1: dynamic).  usage: prog script.txt out.json
#include "vm.hpp"
#ifndef HX_PORD
#define HX_PORD -1
#endif
#ifndef HX_DIM
#define HX_DIM 1
#endif
using PP = PPolyND<HX_DIM, HX_PORD>;
int main(int argc, char **argv) {
  if (argc < 3) return 2;
  VM vm;
  PPCmds<PP> pp(vm);
  std::ifstream in(argv[1]);
  std::string line;
  while (std::getline(in, line)) {
    vm.lineno++;
    vm.tk = vm_tokenize(line);
    vm.tp = 0;
    if (vm.tk.empty() || vm.tk[0][0] == '#') continue;
    std::string c = vm.next();
    if (vm.core(c) || pp.run(c)) continue;
    vm.die("unknown command " + c);
  }
  vm.dump(argv[2]);
  return 0;
}
