// TU: SplineOptimizer<HX_DIM, Spline(HX_ORDER), TimeMap(HX_TMAP), SpatialMap(HX_SMAP)>.  usage: prog script.txt out.json
#include "vmopt.hpp"
#ifndef HX_ORDER
#define HX_ORDER 5
#endif
#ifndef HX_DIM
#define HX_DIM 1
#endif
#ifndef HX_TMAP
#define HX_TMAP 0
#endif
#ifndef HX_SMAP
#define HX_SMAP 0
#endif
#if HX_ORDER == 3
using S = CubicSplineND<HX_DIM>;
#elif HX_ORDER == 5
using S = QuinticSplineND<HX_DIM>;
#else
using S = SepticSplineND<HX_DIM>;
#endif
#if HX_TMAP == 0
using TM = QuadInvTimeMap;
#elif HX_TMAP == 1
using TM = IdentityTimeMap;
#else
using TM = hx::GenTimeMap;
#endif
#if HX_SMAP == 0
using SM = IdentitySpatialMap<HX_DIM>;
#else
using SM = hx::GenSpatialMap<HX_DIM>;
#endif
int main(int argc, char **argv) {
  if (argc < 3) return 2;
  VM vm;
  PPCmds<S::TrajectoryType> pp(vm);
  SplineCmds<S> sp(vm, pp);
  OptCmds<S, TM, SM> op(vm, sp);
  std::ifstream in(argv[1]);
  std::string line;
  while (std::getline(in, line)) {
    vm.lineno++;
    vm.tk = vm_tokenize(line);
    vm.tp = 0;
    if (vm.tk.empty() || vm.tk[0][0] == '#') continue;
    std::string c = vm.next();
    if (vm.core(c) || pp.run(c) || sp.run(c) || op.run(c)) continue;
    vm.die("unknown command " + c);
  }
  vm.dump(argv[2]);
  return 0;
}
