// Includes the real /repo headers (found through -I/repo/include at compile time) with the scalar
// type substituted at the preprocessor level.  All system / Eigen headers are included first (sym.hpp),
// so the include guards make the library's own #includes no-ops and only library text sees the macros.
// Every Eigen double typedef is redirected as well, so that a refactoring of the library that starts using
// e.g. Eigen::ArrayXd or Vector3d is still executed symbolically instead of breaking the build.
#pragma once
#include "sym.hpp"
#ifndef SYMX_NATIVE
#define double ::symx::Sym
#define Vector2d Matrix< ::symx::Sym, 2, 1>
#define RowVector2d Matrix< ::symx::Sym, 1, 2>
#define Matrix2d Matrix< ::symx::Sym, 2, 2>
#define Array2d Array< ::symx::Sym, 2, 1>
#define Vector3d Matrix< ::symx::Sym, 3, 1>
#define RowVector3d Matrix< ::symx::Sym, 1, 3>
#define Matrix3d Matrix< ::symx::Sym, 3, 3>
#define Array3d Array< ::symx::Sym, 3, 1>
#define Vector4d Matrix< ::symx::Sym, 4, 1>
#define RowVector4d Matrix< ::symx::Sym, 1, 4>
#define Matrix4d Matrix< ::symx::Sym, 4, 4>
#define Array4d Array< ::symx::Sym, 4, 1>
#define VectorXd Matrix< ::symx::Sym, Eigen::Dynamic, 1>
#define RowVectorXd Matrix< ::symx::Sym, 1, Eigen::Dynamic>
#define MatrixXd Matrix< ::symx::Sym, Eigen::Dynamic, Eigen::Dynamic>
#define ArrayXd Array< ::symx::Sym, Eigen::Dynamic, 1>
#define Matrix2Xd Matrix< ::symx::Sym, 2, Eigen::Dynamic>
#define MatrixX2d Matrix< ::symx::Sym, Eigen::Dynamic, 2>
#define Array2Xd Array< ::symx::Sym, 2, Eigen::Dynamic>
#define ArrayX2d Array< ::symx::Sym, Eigen::Dynamic, 2>
#define Array22d Array< ::symx::Sym, 2, 2>
#define Matrix3Xd Matrix< ::symx::Sym, 3, Eigen::Dynamic>
#define MatrixX3d Matrix< ::symx::Sym, Eigen::Dynamic, 3>
#define Array3Xd Array< ::symx::Sym, 3, Eigen::Dynamic>
#define ArrayX3d Array< ::symx::Sym, Eigen::Dynamic, 3>
#define Array33d Array< ::symx::Sym, 3, 3>
#define Matrix4Xd Matrix< ::symx::Sym, 4, Eigen::Dynamic>
#define MatrixX4d Matrix< ::symx::Sym, Eigen::Dynamic, 4>
#define Array4Xd Array< ::symx::Sym, 4, Eigen::Dynamic>
#define ArrayX4d Array< ::symx::Sym, Eigen::Dynamic, 4>
#define Array44d Array< ::symx::Sym, 4, 4>
#define ArrayXXd Array< ::symx::Sym, Eigen::Dynamic, Eigen::Dynamic>
#endif
#include "SplineOptimizer.hpp"
#ifndef SYMX_NATIVE
#undef double
#undef Vector2d
#undef RowVector2d
#undef Matrix2d
#undef Array2d
#undef Vector3d
#undef RowVector3d
#undef Matrix3d
#undef Array3d
#undef Vector4d
#undef RowVector4d
#undef Matrix4d
#undef Array4d
#undef VectorXd
#undef RowVectorXd
#undef MatrixXd
#undef ArrayXd
#undef Matrix2Xd
#undef MatrixX2d
#undef Array2Xd
#undef ArrayX2d
#undef Array22d
#undef Matrix3Xd
#undef MatrixX3d
#undef Array3Xd
#undef ArrayX3d
#undef Array33d
#undef Matrix4Xd
#undef MatrixX4d
#undef Array4Xd
#undef ArrayX4d
#undef Array44d
#undef ArrayXXd
#endif
