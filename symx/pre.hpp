// Includes the real /repo headers (found through -I/repo/include at compile time) with the scalar
// type substituted at the preprocessor level.  All system / Eigen headers are included first (sym.hpp),
// so the include guards make the library's own #includes no-ops and only library text sees the macros.
#pragma once
#include "sym.hpp"
#ifndef SYMX_NATIVE
#define double ::symx::Sym
#define VectorXd Matrix< ::symx::Sym, Eigen::Dynamic, 1>
#define MatrixXd Matrix< ::symx::Sym, Eigen::Dynamic, Eigen::Dynamic>
#define Matrix2d Matrix< ::symx::Sym, 2, 2>
#define Matrix3d Matrix< ::symx::Sym, 3, 3>
#endif
#include "SplineOptimizer.hpp"
#ifndef SYMX_NATIVE
#undef double
#undef VectorXd
#undef MatrixXd
#undef Matrix2d
#undef Matrix3d
#endif
