// symx: recording scalar used to execute the *unmodified* /repo headers symbolically.
// Two build modes of every harness:
//   recording (default): R = symx::Sym, every + - * / sqrt abs floor is appended to a hash-consed DAG,
//                         comparisons / isfinite / float->int are fork points driven by a decision prefix.
//   native (-DSYMX_NATIVE): R = double, the same harness source runs the real double code
//                         (translator validation and counterexample replay).
#pragma once
#include <Eigen/Dense>
#include <array>
#include <vector>
#include <algorithm>
#include <cmath>
#include <iostream>
#include <iomanip>
#include <memory>
#include <type_traits>
#include <utility>
#include <sstream>
#include <fstream>
#include <string>
#include <map>
#include <unordered_map>
#include <tuple>
#include <stdexcept>
#include <cstdio>
#include <cstdlib>
#include <cstring>
#include <climits>
#include <limits>
#include <functional>

namespace symx {
typedef double real_t;

#ifndef SYMX_NATIVE
enum Op { CONST = 0, VAR = 1, ADD = 2, SUB = 3, MUL = 4, DIV = 5, NEG = 6, SQRT = 7, ABS = 8, FLOOR = 9, POISON = 10 };
struct Node { int op; int a; int b; real_t c; std::string name; };
struct Fork { std::string kind; int a; int b; long outcome; };
struct Key { int op, a, b; bool operator==(const Key &o) const { return op == o.op && a == o.a && b == o.b; } };
struct KeyHash { size_t operator()(const Key &k) const { return ((size_t)k.op * 1000003u) ^ ((size_t)k.a * 998244353u) ^ ((size_t)k.b * 1000000007u); } };
struct Ctx {
  std::vector<Node> nodes;
  std::unordered_map<Key, int, KeyHash> cons;
  std::map<unsigned long long, int> consts;  // keyed by bit pattern (so +0.0 / -0.0 differ)
  std::vector<Fork> path;
  std::vector<long> forced;
  size_t pc = 0;
  int npoison = 0;
  bool record_forks = true;
};
inline Ctx &ctx() { static Ctx c; return c; }
inline unsigned long long bits(real_t c) { unsigned long long u; std::memcpy(&u, &c, 8); return u; }
inline int mk_const(real_t c) {
  auto &C = ctx();
  unsigned long long u = bits(c);
  if (c != c) u = 0x7ff8000000000000ULL;
  auto it = C.consts.find(u);
  if (it != C.consts.end()) return it->second;
  C.nodes.push_back(Node{CONST, -1, -1, c, ""});
  int id = (int)C.nodes.size() - 1;
  C.consts[u] = id;
  return id;
}
inline int mk(int op, int a, int b) {
  auto &C = ctx();
  Key k{op, a, b};
  auto it = C.cons.find(k);
  if (it != C.cons.end()) return it->second;
  C.nodes.push_back(Node{op, a, b, 0, ""});
  int id = (int)C.nodes.size() - 1;
  C.cons[k] = id;
  return id;
}
struct Sym {
  real_t v;
  int id;
  constexpr Sym() : v(0), id(-1) {}
  template <class T, class = typename std::enable_if<std::is_arithmetic<T>::value>::type>
  constexpr Sym(T x) : v((real_t)x), id(-1) {}
  constexpr Sym(real_t x, int i) : v(x), id(i) {}
  int node() const { return id >= 0 ? id : mk_const(v); }
  bool symbolic() const { return id >= 0; }
  static Sym var(const std::string &name, real_t shadow) {
    auto &C = ctx();
    C.nodes.push_back(Node{VAR, -1, -1, 0, name});
    return Sym(shadow, (int)C.nodes.size() - 1);
  }
  static Sym poison() {
    auto &C = ctx();
    C.nodes.push_back(Node{POISON, C.npoison++, -1, 0, ""});
    return Sym(std::numeric_limits<real_t>::quiet_NaN(), (int)C.nodes.size() - 1);
  }
  constexpr Sym &operator+=(const Sym &o);
  constexpr Sym &operator-=(const Sym &o);
  constexpr Sym &operator*=(const Sym &o);
  constexpr Sym &operator/=(const Sym &o);
  explicit operator real_t() const { return v; }
  // conversions to integer types truncate towards zero: for a symbolic value they are integer-valued fork points
  explicit operator int() const;
  explicit operator long() const;
  explicit operator unsigned() const { return (unsigned)(long)(*this); }
  explicit operator unsigned long() const { return (unsigned long)(long)(*this); }
  explicit operator bool() const;
};
// constants combined with constants stay constants (folded by IEEE double arithmetic exactly as the
// real code would do at run time); anything touching a symbolic operand is recorded.
inline Sym rt_bin(int op, const Sym &a, const Sym &b, real_t v) {
  if (a.id < 0 && b.id < 0) return Sym(v, -1);
  return Sym(v, mk(op, a.node(), b.node()));
}
constexpr Sym operator+(const Sym &a, const Sym &b) { if (__builtin_is_constant_evaluated()) return Sym(a.v + b.v, -1); return rt_bin(ADD, a, b, a.v + b.v); }
constexpr Sym operator-(const Sym &a, const Sym &b) { if (__builtin_is_constant_evaluated()) return Sym(a.v - b.v, -1); return rt_bin(SUB, a, b, a.v - b.v); }
constexpr Sym operator*(const Sym &a, const Sym &b) { if (__builtin_is_constant_evaluated()) return Sym(a.v * b.v, -1); return rt_bin(MUL, a, b, a.v * b.v); }
constexpr Sym operator/(const Sym &a, const Sym &b) { if (__builtin_is_constant_evaluated()) return Sym(a.v / b.v, -1); return rt_bin(DIV, a, b, a.v / b.v); }
inline Sym operator-(const Sym &a) { if (a.id < 0) return Sym(-a.v, -1); return Sym(-a.v, mk(NEG, a.node(), -1)); }
inline Sym operator+(const Sym &a) { return a; }
constexpr Sym &Sym::operator+=(const Sym &o) { *this = *this + o; return *this; }
constexpr Sym &Sym::operator-=(const Sym &o) { *this = *this - o; return *this; }
constexpr Sym &Sym::operator*=(const Sym &o) { *this = *this * o; return *this; }
constexpr Sym &Sym::operator/=(const Sym &o) { *this = *this / o; return *this; }
#define SYMX_MIXED(OPN)                                                                                                   \
  template <class T, class = typename std::enable_if<std::is_arithmetic<T>::value>::type>                                \
  constexpr Sym operator OPN(const Sym &a, T b) { return a OPN Sym(b); }                                                  \
  template <class T, class = typename std::enable_if<std::is_arithmetic<T>::value>::type>                                \
  constexpr Sym operator OPN(T a, const Sym &b) { return Sym(a) OPN b; }
SYMX_MIXED(+) SYMX_MIXED(-) SYMX_MIXED(*) SYMX_MIXED(/)

// fork point: returns the decision (forced prefix first, shadow's own decision beyond it) and logs it
inline long fork(const char *kind, int a, int b, long shadow) {
  auto &C = ctx();
  long taken = shadow;
  if (C.pc < C.forced.size()) taken = C.forced[C.pc];
  C.pc++;
  C.path.push_back(Fork{kind, a, b, taken});
  return taken;
}
inline Sym::operator long() const {
  if (id < 0) return (long)v;
  long shadow = (v != v || v > 9.0e18 || v < -9.0e18) ? (long)INT_MIN : (long)v;
  return fork("truncint", id, -1, shadow);
}
inline Sym::operator int() const { return (int)(long)(*this); }
inline bool branch(const char *op, const Sym &a, const Sym &b, bool shadow) {
  if (a.id < 0 && b.id < 0) return shadow;
  return fork(op, a.node(), b.node(), shadow ? 1 : 0) != 0;
}
inline bool operator<(const Sym &a, const Sym &b) { return branch("lt", a, b, a.v < b.v); }
inline bool operator<=(const Sym &a, const Sym &b) { return branch("le", a, b, a.v <= b.v); }
inline bool operator>(const Sym &a, const Sym &b) { return branch("lt", b, a, a.v > b.v); }
inline bool operator>=(const Sym &a, const Sym &b) { return branch("le", b, a, a.v >= b.v); }
inline bool operator==(const Sym &a, const Sym &b) { return branch("eq", a, b, a.v == b.v); }
inline bool operator!=(const Sym &a, const Sym &b) { return !branch("eq", a, b, a.v == b.v); }
inline Sym::operator bool() const { return *this != Sym(0.0); }
#define SYMX_CMP(OPN)                                                                                                     \
  template <class T, class = typename std::enable_if<std::is_arithmetic<T>::value>::type>                                \
  inline bool operator OPN(const Sym &a, T b) { return a OPN Sym(b); }                                                    \
  template <class T, class = typename std::enable_if<std::is_arithmetic<T>::value>::type>                                \
  inline bool operator OPN(T a, const Sym &b) { return Sym(a) OPN b; }
SYMX_CMP(<) SYMX_CMP(<=) SYMX_CMP(>) SYMX_CMP(>=) SYMX_CMP(==) SYMX_CMP(!=)
inline Sym sqrt(const Sym &a) { if (a.id < 0) return Sym(std::sqrt(a.v), -1); return Sym(std::sqrt(a.v), mk(SQRT, a.node(), -1)); }
inline Sym abs(const Sym &a) { if (a.id < 0) return Sym(std::fabs(a.v), -1); return Sym(std::fabs(a.v), mk(ABS, a.node(), -1)); }
inline Sym fabs(const Sym &a) { return abs(a); }
// floor: as a Sym it is a FLOOR node; converted to int it is an integer-valued fork point
struct FloorResult {
  Sym s;
  operator Sym() const { return s; }
  operator int() const {
    if (s.id < 0) return (int)s.v;
    real_t sv = s.v;
    long shadow = (sv != sv || sv > 2147483647.0 || sv < -2147483648.0) ? (long)INT_MIN : (long)sv;
    return (int)fork("floorint", ctx().nodes[s.id].a, -1, shadow);
  }
};
inline FloorResult floor(const Sym &a) { if (a.id < 0) return FloorResult{Sym(std::floor(a.v), -1)}; return FloorResult{Sym(std::floor(a.v), mk(FLOOR, a.node(), -1))}; }
inline bool isfinite(const Sym &a) { if (a.id < 0) return std::isfinite(a.v); return fork("fin", a.node(), -1, std::isfinite(a.v) ? 1 : 0) != 0; }
inline bool isnan(const Sym &a) { if (a.id < 0) return std::isnan(a.v); return fork("nan", a.node(), -1, std::isnan(a.v) ? 1 : 0) != 0; }
inline bool isinf(const Sym &a) { if (a.id < 0) return std::isinf(a.v); return fork("inf", a.node(), -1, std::isinf(a.v) ? 1 : 0) != 0; }
inline std::ostream &operator<<(std::ostream &o, const Sym &a) { return o << a.v; }
typedef Sym R;
inline R mkvar(const std::string &name, real_t shadow) { return Sym::var(name, shadow); }
inline real_t shadow_of(const R &x) { return x.v; }
#else  // SYMX_NATIVE
typedef double R;
inline R mkvar(const std::string &, real_t shadow) { return shadow; }
inline real_t shadow_of(const R &x) { return x; }
#endif
}  // namespace symx

#ifndef SYMX_NATIVE
namespace std {
inline symx::Sym sqrt(const symx::Sym &a) { return symx::sqrt(a); }
inline symx::Sym abs(const symx::Sym &a) { return symx::abs(a); }
inline symx::Sym fabs(const symx::Sym &a) { return symx::abs(a); }
inline symx::FloorResult floor(const symx::Sym &a) { return symx::floor(a); }
inline bool isfinite(const symx::Sym &a) { return symx::isfinite(a); }
inline bool isnan(const symx::Sym &a) { return symx::isnan(a); }
inline bool isinf(const symx::Sym &a) { return symx::isinf(a); }
inline std::string to_string(const symx::Sym &a) { return std::to_string(a.v); }
// mixed-type helpers that compile for double operands (a literal next to a library scalar) must compile here too
inline symx::Sym max(const symx::Sym &a, double b) { symx::Sym c(b); return (a < c) ? c : a; }
inline symx::Sym max(double a, const symx::Sym &b) { symx::Sym c(a); return (c < b) ? b : c; }
inline symx::Sym min(const symx::Sym &a, double b) { symx::Sym c(b); return (c < a) ? c : a; }
inline symx::Sym min(double a, const symx::Sym &b) { symx::Sym c(a); return (b < c) ? b : c; }
inline symx::Sym fmax(const symx::Sym &a, const symx::Sym &b) { return (a < b) ? b : a; }
inline symx::Sym fmin(const symx::Sym &a, const symx::Sym &b) { return (b < a) ? b : a; }
inline symx::Sym pow(const symx::Sym &a, int n) {
  symx::Sym r(1.0);
  for (int i = 0; i < (n < 0 ? -n : n); i++) r = r * a;
  return n < 0 ? symx::Sym(1.0) / r : r;
}
inline symx::Sym pow(const symx::Sym &a, double e) {
  if (e == (double)(int)e && e > -64 && e < 64) return pow(a, (int)e);
  if (e == 0.5) return symx::sqrt(a);
  std::fprintf(stderr, "symx: pow with non-integer exponent is not supported\n");
  std::exit(4);
}
inline symx::Sym pow(const symx::Sym &a, const symx::Sym &e) {
  if (e.id < 0) return pow(a, e.v);
  std::fprintf(stderr, "symx: pow with symbolic exponent is not supported\n");
  std::exit(4);
}
inline symx::Sym ceil(const symx::Sym &a) { symx::Sym f = symx::floor(-a); return -f; }
inline bool signbit(const symx::Sym &a) { return a < symx::Sym(0.0); }
inline symx::Sym hypot(const symx::Sym &a, const symx::Sym &b) { return symx::sqrt(a * a + b * b); }
template <> struct numeric_limits<symx::Sym> {
  static constexpr bool is_specialized = true;
  static constexpr bool is_signed = true, is_integer = false, is_exact = false, has_infinity = true, has_quiet_NaN = true;
  static constexpr int digits = 53, digits10 = 15, max_digits10 = 17;
  static symx::Sym quiet_NaN() { return symx::Sym::poison(); }  // EIGEN_INITIALIZE_MATRICES_BY_NAN hook: uninitialised = POISON
  static symx::Sym infinity() { return symx::Sym(std::numeric_limits<double>::infinity()); }
  static symx::Sym epsilon() { return symx::Sym(std::numeric_limits<double>::epsilon()); }
  static symx::Sym max() { return symx::Sym(std::numeric_limits<double>::max()); }
  static symx::Sym min() { return symx::Sym(std::numeric_limits<double>::min()); }
  static symx::Sym lowest() { return symx::Sym(std::numeric_limits<double>::lowest()); }
};
}  // namespace std
namespace Eigen {
template <> struct NumTraits<symx::Sym> : GenericNumTraits<symx::Sym> {
  typedef symx::Sym Real;
  typedef symx::Sym NonInteger;
  typedef symx::Sym Nested;
  typedef symx::Sym Literal;
  enum { IsComplex = 0, IsInteger = 0, IsSigned = 1, RequireInitialization = 1, ReadCost = 1, AddCost = 3, MulCost = 3 };
  static inline Real epsilon() { return Real(2.220446049250313e-16); }
  static inline Real dummy_precision() { return Real(1e-12); }
  static inline int digits10() { return 15; }
  static inline Real highest() { return Real(std::numeric_limits<double>::max()); }
  static inline Real lowest() { return Real(std::numeric_limits<double>::lowest()); }
  static inline Real infinity() { return Real(std::numeric_limits<double>::infinity()); }
  static inline Real quiet_NaN() { return symx::Sym::poison(); }
};
}  // namespace Eigen
#endif
