#!/usr/bin/env python3
"""Regenerates DESIGN.md section s12 from seeded/*/meta.json and seeded/matrix.tsv (if present)."""
import json, glob, os, re
V = os.path.dirname(os.path.dirname(os.path.abspath(__file__)))
metas = [json.load(open(f)) for f in sorted(glob.glob(V + '/seeded/*/meta.json'))]
matrix = {}
mp = V + '/seeded/matrix.tsv'
if os.path.exists(mp):
    for l in open(mp):
        p = l.rstrip('\n').split('\t')
        if len(p) >= 4:
            matrix.setdefault(p[0], {})[p[1]] = p[2:]
L = ['## s12  Seeded changes: which checks catch which', '',
     'Each change under `/verif/seeded/<id>/` (`_s*`: first round, `_r*`: second round, `_t*`: third round, `_u*`: fourth round, `_v*`: fifth round, `_w*`: sixth round, `_x*`: seventh round, each launched after the checks had been strengthened on the previous one) was written by a fresh sub-agent that saw only the text of one property and its own scratch',
     'worktree of `/repo` (nothing from `/verif`); it compiles, passes the repository\'s test binaries (`tools/run_suite.sh`), and comes with a',
     'demonstration program that fails with the change and passes without it - all re-confirmed by `tools/confirm_seed.sh` before the change',
     'was kept (`confirm.json`).  The checks are run against a scratch copy of `/repo/include` with the patch applied (`tools/mut.sh`,',
     '`SYMX_REPO`); `/repo` itself is never modified.  "first run" is what happened before any strengthening; the notes say what was changed.', '',
     '| seed | property | what it needs to manifest | caught by (quick tier) | notes |', '|---|---|---|---|---|']
for m in metas:
    det = list(m.get('detected_by_checks', []))
    mx = matrix.get(m['id'], {})
    if mx:
        det = sorted(c for c, r in mx.items() if r and r[0] != 'rc=0' and 'patch-failed' not in r[0])
        clean = sorted(c for c, r in mx.items() if r and r[0] == 'rc=0')
    L.append('| %s | %s | %s | %s | %s |' % (m['id'], m['breaks_property'], m['needs_to_manifest'].replace('|', '/'), ', '.join(det) or '-', (m.get('notes') or '').replace('|', '/')))
L += ['', 'Summary.  Round 1 (38 changes): 31 caught by the first run of the target property\'s check; 2 could not be BUILT by the recording build (legal C++ outside the',
      'scalar substitution: Eigen::ArrayXd, std::max(literal, scalar)) - substitution widened; 4 missed because an enumerated dimension was too narrow (C11 moves',
      'between two coefficient counts above 8, C20 three segments, C12 functor arguments, C01_s1 needs a re-update with partially shared inputs: caught by C14 and, after',
      'the extension, C10) - dimensions widened; 1 only flagged as an unexplored branch (C13_s2) - alternative-path coverage loop; 1 Python error (C08_s2) - fixed.',
      'Round 2 (24 changes, written after those fixes, with hints towards rarely exercised API): 19 caught at the first run; 4 missed - C09_r2 (needs a length-3',
      'reconfiguration history: quick tier had length 2), C10_r1 (three-step history mixing input sharing and an overload switch), C14_r1 (propagateGrad was not an observable',
      'of the metamorphic relations; DIM 4), C04_r1 (a duration tolerance guard; durations are cut variables so the coverage loop could not steer) - all closed by',
      'widening the enumerated histories / observables / shadow scales; 1 tool error (C17_r1: |x| of a quotient) - encoding fixed.  After the fixes all 62 are caught.',
      'Round 3 (16 changes; agents asked for the least obvious change they could justify): 11 caught at the first run; 5 missed - C07_t2 (index argument of the user map\'s backward rule:',
      'the harness\'s generic map ignored its index), C01_t1 (re-update with identical durations and another start time: C01 had no re-update route; C10/C14 caught it), C03_t1 (multi-sample batch',
      'with a breakpoint-exact sample after one in the preceding piece), C05_t1 (time-point-overload update between two propagateGrad calls at N >= 3), C11_t1 (move assignment: the harness',
      'had copy assignment only) - closed by an index-dependent gain in the generic map, re-update routes, multi-sample batches, time-point histories and rvalue-assignment operations.',
      'Round 4 (8 changes, properties not targeted in round 3): 7 caught at the first run; C16_u1 missed (a rejected time-point initialisation that leaves the previous verdict flag: the sequence alphabet',
      'had no invalid time-point spacing) - two steps added.',
      'Round 5 (12 changes written, 3 exact duplicates of earlier ones dropped, 9 kept; hint: rarely used API surface and interactions between two calls): 7 of 9 caught at the first run; missed: C11_v1',
      '(update keeping shape and both end breakpoints) and C01_v1 (overload switch on a built object) - an operation and two routes added.',
      'Round 6 (12 changes; the agents were given the list of ideas already used, to force new ones): 11 caught at the first run; C08_w1 missed by C08 (needs a non-ascending executor: C12\'s territory, C12 catches it)',
      '- C08 now also runs under a descending-order executor.',
      'Round 7 (8 changes, same instructions): all 8 caught at the first run (one through a task error instead of a VIOLATION line - fixed).  All 115 are caught now',
      '(`seeded/own.tsv`: every seed of rounds 1-6 against the check of the property it targets, quick tier in sweep mode; rounds 1-3 were run before the last extensions of C01, C08, C11 and C16, which only added obligations; round 7 was run with `tools/mut.sh` only).', '']
if matrix:
    allchecks = sorted({c for mx in matrix.values() for c in mx})
    L += ['Cross matrix (seeds for which the full row was run: every claimed check, quick tier; `x` = exit 1 with at least one VIOLATION line, `u` = exit 1 with only UNCONFIRMED/crash lines, `.` = exit 0):', '',
          '| seed | ' + ' | '.join(allchecks) + ' |', '|---|' + '---|' * len(allchecks)]
    for m in metas:
        if m['id'] not in matrix:
            continue
        row = []
        for c in allchecks:
            r = matrix.get(m['id'], {}).get(c)
            if not r:
                row.append(' ')
            elif r[0] == 'rc=0':
                row.append('.')
            elif len(r) > 1 and r[1] != 'violations=0':
                row.append('x')
            else:
                row.append('u')
        L.append('| %s | ' % m['id'] + ' | '.join(row) + ' |')
    L.append('')
text = '\n'.join(L)
p = V + '/DESIGN.md'
s = open(p).read()
i = s.find('## s12  Seeded changes')
if i >= 0:
    j = s.find('\n---------------------------------------------------------------------------------------------------\n\n## s13', i)
    s = s[:i].rstrip('\n') + '\n\n' + text + (s[j:] if j >= 0 else '')
else:
    s = s.rstrip('\n') + '\n\n---------------------------------------------------------------------------------------------------\n\n' + text
open(p, 'w').write(s)
print('s12 written: %d seeds, matrix rows %d' % (len(metas), len(matrix)))
