#!/bin/sh
# usage: tools/seed_own.sh  -- every seeded change against the check of the property it breaks (quick tier, VERIF_STOP_FIRST sweep mode: task dispatch stops after the first confirmed violation); appends to seeded/own.tsv
cd /verif
OUT=seeded/own.tsv
for s in seeded/C*_[a-z][0-9]*/; do
  n=$(basename $s)
  c=$(python3 -c "import json; print(json.load(open('$s/meta.json'))['breaks_property'])")
  if grep -q "^$n	" $OUT 2>/dev/null; then continue; fi
  D=$(mktemp -d /tmp/mutrepo-XXXXXX); cp -r /repo/include $D/include
  (cd $D && patch -s -p1 < /verif/$s/patch.diff) || { echo "$n	$c	patch-failed" >> $OUT; rm -rf $D; continue; }
  res=$(SYMX_REPO=$D SYMX_REPLAY=$D/replay SYMX_BUILD=$D/build VERIF_STOP_FIRST=1 VERIF_JOBS=${VERIF_JOBS:-8} timeout 2400 ./check $c --tier quick --no-evidence 2>&1)
  rc=$?
  nv=$(printf '%s\n' "$res" | grep -c '^VIOLATION')
  echo "$n	$c	rc=$rc	violation_lines=$nv" >> $OUT
  rm -rf $D
done
