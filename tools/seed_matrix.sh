#!/bin/sh
# usage: tools/seed_matrix.sh [checks...]   -- runs every seeded change against the given checks (default: all claimed) and appends to seeded/matrix.tsv
cd /verif
CHECKS=${@:-$(python3 -c "import json; print(' '.join(c['property_id'] for c in json.load(open('MANIFEST.json'))['checks']))")}
OUT=seeded/matrix.tsv
for s in seeded/C*_[a-z][0-9]*/; do
  n=$(basename $s)
  D=$(mktemp -d /tmp/mutrepo-XXXXXX); cp -r /repo/include $D/include
  (cd $D && patch -s -p1 < /verif/$s/patch.diff) || { echo "$n	-	patch-failed" >> $OUT; rm -rf $D; continue; }
  for c in $CHECKS; do
    if grep -q "^$n	$c	" $OUT 2>/dev/null; then continue; fi
    res=$(SYMX_REPO=$D SYMX_REPLAY=$D/replay SYMX_BUILD=$D/build VERIF_JOBS=${VERIF_JOBS:-8} timeout 2400 ./check $c --tier quick --no-evidence 2>&1)
    rc=$?
    nv=$(printf '%s\n' "$res" | grep -c '^VIOLATION'); nu=$(printf '%s\n' "$res" | grep -c '^UNCONFIRMED'); ne=$(printf '%s\n' "$res" | grep -c '^TASK-ERROR\|BUILD FAILED')
    echo "$n	$c	rc=$rc	violations=$nv	unconfirmed=$nu	errors=$ne" >> $OUT
  done
  rm -rf $D
done
