#!/usr/bin/env python3
"""Regenerates DESIGN.md section s13 (false-alarm tests and mutation sweep) from benign/matrix.tsv and seeded/sweep.tsv."""
import os, collections
V = os.path.dirname(os.path.dirname(os.path.abspath(__file__)))
L = ['## s13  False-alarm tests (behaviour-preserving refactorings) and mutation sweep', '']
bm = [l.rstrip('\n').split('\t') for l in open(V + '/benign/matrix.tsv')] if os.path.exists(V + '/benign/matrix.tsv') else []
bm2 = [l.rstrip('\n').split('\t') for l in open(V + '/benign/matrix_final.tsv')] if os.path.exists(V + '/benign/matrix_final.tsv') else []
if bm:
    pats = sorted({r[0] for r in bm})
    bad = [r for r in bm + bm2 if len(r) > 2 and r[2] != 'rc=0']
    L += ['**Behaviour-preserving refactorings** (`benign/`, written by three sub-agents asked for routine maintenance changes with bit-identical public',
          'results: helper extraction, loop fusion/splitting, container changes, guard clauses, member-pointer tables, `setZero(r,c)`, ...; each',
          'verified by its author with a byte-identical hex dump).  Every check is run against every patch (`tools/benign_matrix.sh`); a non-zero',
          'exit would be a false alarm.', '',
          'Result: %d patches x checks = %d runs, plus %d re-runs (`benign/matrix_final.tsv`: the checks extended after seeding rounds 3-6 - %s - against all patches with the final code): **%d non-zero exits**.' % (len(pats), len(bm), len(bm2), ', '.join(sorted({r[1] for r in bm2})), len(bad)), '']
    for r in bad:
        L.append('* `%s` vs `%s`: %s' % (r[0], r[1], ' '.join(r[2:])[:200]))
    if bad:
        L.append('')
sw = [l.rstrip('\n').split('\t') for l in open(V + '/seeded/sweep.tsv')] if os.path.exists(V + '/seeded/sweep.tsv') else []
if sw:
    n = len(sw)
    nob = sum(1 for r in sw if r[3] == 'nobuild')
    surv = [r for r in sw if r[3] == 'SURVIVED']
    kills = collections.Counter(r[3] for r in sw if r[3] not in ('nobuild', 'SURVIVED'))
    L += ['**Mutation sweep** (`tools/mutate.py`: one-token mutants - literal changed, `+`/`-` swapped, `*` -> `+`, relational operator changed, index `+-1`, `+=` -> `=`,',
          'a `setZero/resize/clear/invalidate...` statement deleted - at random lines of the six code regions; the checks anchored to the region run fastest',
          'first until one exits non-zero).  Not part of any registered command.', '',
          '%d mutants: %d do not compile, %d killed, %d survived.  First killing check: %s.' % (n, nob, n - nob - len(surv), len(surv), ', '.join('%s %d' % kv for kv in sorted(kills.items()))), '']
    if surv:
        L.append('Survivors (each inspected; all are equivalent with respect to the properties: `kOrderHint <= 8` vs `< 8` switches a fixed order of exactly 8 to the dynamic table with the same entries; statements that are dead for num_coeffs == 0; `DIM <= 3` vs `DIM < 3` moves DIM 3 to the generic branch that computes the same values; `t <= front` vs `t < front` both return piece 0; `n_inner > 0` vs `>= 0` adds a zero-row block; `+=` vs `=` into a buffer zeroed just before; the default energy weight, which no property specifies.  `ConstIterator::operator-` with `+` survived at first because only `end() - begin()` was exercised: iterator operators are now covered in C03):')
        L.append('')
        seen = set()
        for r in surv:
            key = (r[1], r[5])
            if key in seen:
                continue
            seen.add(key)
            L.append('* `%s` (%s): `%s` -> `%s`' % (r[1], r[0], r[4], r[5]))
        L.append('')
text = '\n'.join(L)
p = V + '/DESIGN.md'
s = open(p).read()
i = s.find('## s13  False-alarm tests')
if i >= 0:
    j = s.find('\n## s', i + 10)
    s = s[:i] + text + (s[j:] if j >= 0 else '\n')
else:
    s = s.rstrip('\n') + '\n\n---------------------------------------------------------------------------------------------------\n\n' + text + '\n'
open(p, 'w').write(s)
print('s13 written')
