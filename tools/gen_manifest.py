#!/usr/bin/env python3
"""Regenerates /verif/MANIFEST.json from the table below (keeps it valid at all times)."""
import json, os, sys
V = os.path.dirname(os.path.dirname(os.path.abspath(__file__)))
TECH = 'symbolic execution of the real headers (recording scalar) + SMT (z3 nlsat / QF_UF) over the recorded DAG; '
CLAIMED = {
    'C01': ('s5/C01', TECH + 'Real interpretation, tiers T-all/T-line/T-grid; UF for entry-route identity',
            'For every waypoint/boundary/start-time value (symbolic, universally quantified by the solver) and, up to the N caps in evidence, every positive duration vector: interpolation from both sides, boundary derivatives, knot/time bookkeeping, and node-identical coefficients across the four entry routes. Bounded by N, DIM and the duration tiers stated in evidence.',
            'exact-real reading of the recorded operations (constants rationalised); sizes concrete; Eigen scalar paths; z3'),
    'C02': ('s5/C02', TECH + 'Real interpretation; QF_LRA uniqueness and first-variation queries',
            'C^{2s-2} continuity at every interior knot for all data (and all positive durations up to the T-all caps), uniqueness of the optimality system, and vanishing first variation against every admissible piecewise-polynomial perturbation (T-grid). The variational theorem that turns these into global minimality is classical and not re-proved.',
            'as C01; the infinite-dimensional minimality statement is the textbook consequence'),
    'C03': ('s5/C03', TECH + 'all feasible paths of findSegment enumerated by re-execution with solver-checked prefixes; Real interpretation for the specification value, UF / node identity for route independence, concrete hint post-state per path',
            'On every feasible path (solver-enumerated; breakpoints, coefficients and t symbolic) the result equals the k-th derivative of the specification piece at t-b_i, the path condition implies t lies in that piece (clamped), all routes (plain, hinted with every hint class, batch, index/at/iterator local-time, derivative trajectory, Deriv-enum overloads) are node-identical, and the hint equals the piece index afterwards; sequences of hinted calls. Segment counts {1,2,3,4,31,32,33}, coefficient counts {1,4,6,8,9,12}.',
            'hint and index arguments are concrete ints enumerated by class; NaN t outside; ulp-adjacent times covered in the Real order only'),
    'C07': ('s5/C07', TECH + 'oracle cost functors (fresh symbolic outputs per call) + exact forward-mode AD of the recorded cost with the oracle outputs as functions of their recorded arguments; cut at the decoded durations (T-all) / substitution after differentiation (T-grid)',
            'grad_out[j] equals the exact derivative of the returned cost node w.r.t. x_j for every decision vector, reference state, start time, energy weight, map parameter and every value/gradient output of the user functors (all symbolic): time components through the chain rule (d cost/d T_i)(d toTime/d tau), spatial and boundary components directly; QuadInv (both branches), identity and user time maps; identity, affine (full / reduced per-index dof) and element-wise quadratic spatial maps; 3-cost and 2-cost overloads; energy weight positive / zero / non-positive.',
            'sizes N, K, DIM, flags enumerated (caps in evidence); protocol: running cost depends on (p,v,a,j,s,global time,segment index)'),
    'C08': ('s5/C08', TECH + 'oracle cost functors that record their arguments; Real interpretation with cuts at the published coefficients, decoded durations and reported energy',
            'Every sample handed to the running cost has the right segment index, local time (k/K)T_i, global time t0+sum T_j+t, and p,v,a,j,s equal to derivatives 0..4 of the published piece at t; K+1 calls per segment; cost == time cost + waypoint cost + trapezoid sum + rho*energy (energy term iff rho > 0); time/waypoint functors receive the decoded durations/waypoints and are called once; 2-cost overload makes no waypoint call.',
            'K in {1,2,3,5,64} quick; N<=3; DIM<=2 quick'),
    'C09': ('s5/C09', TECH + 'independent reference layout function; UF node identity for pinning and block placement; Real interpretation for map formulas and the initial-guess round trip; reconfiguration histories vs a fresh optimizer',
            'getDimension, the initial-guess size and the gradient size equal the reference total for all 256 flag settings; decoded durations == toTime(x_i), optimised waypoints == toPhysical(x block at the reference offset), flagged boundary blocks == x blocks at the reference offsets, everything else node-identical to the reference state; decode(generateInitialGuess()) == reference; after every reconfiguration history up to length 3 (4 thorough) all observables equal those of a fresh optimizer configured directly; time-point initialisation.',
            'orders 3/5/7, N 1..3 (6 thorough), DIM 1..2 (3 thorough); round trip assumes reference durations >= 1 ms'),
    'C12': ('s5/C12', TECH + 'permuting and nesting executors; UF / node identity of cost, gradient and of every argument handed to the user functors against SerialExecutor with a fresh workspace',
            'SCHEDULE INDEPENDENCE ONLY: for all permutations of the per-segment tasks (N<=4; N=5,6 sampled), for OpenMPExecutor (serial fallback), for the first call on a freshly configured optimizer, and for an evaluation interrupted after 0..N segment tasks by a complete second evaluation on the same optimizer with a private workspace, cost, gradient and all functor arguments are node-identical (bit-identical) to undisturbed serial evaluation. Freedom from data races under real threads is NOT decided by this technique.',
            'half of the property: thread-level data races (e.g. the lazy layout cache written from const evaluate) are outside the claim - DESIGN s5/C12, s8'),
    'C10': ('s5/C10', TECH + 'UF / node identity between a reused object (history of updates with fresh or partially shared symbolic inputs, interleaved queries; POISON for uninitialised dynamic buffers) and a freshly constructed one',
            'After every history of up to 3 updates over sizes {1,2,3,4} (both overloads, with and without interleaved energy / gradient / propagation / evaluation queries), after every re-update that keeps any subset of {durations, waypoints, start time, boundary state}, and after three-step histories that mix such sharing with overload switches, all observables (coefficients, bookkeeping, energy, energy gradients, partials, propagateGrad, evaluations) are node-identical to a fresh object and unchanged by repeating the queries; optimizer evaluations with an explicit or built-in workspace reused across problems, sizes, flag sets and optimizers are node-identical (cost, gradient, functor arguments, workspace spline) to evaluations with a fresh workspace.',
            'histories <= 3, N <= 4, DIM <= 2 (quick)'),
    'C11': ('s5/C11', TECH + 'UF / node identity with fresh variables per update and POISON for uninitialised buffers; histories enumerated exhaustively to length 3',
            'After every operation sequence up to length 3 over {evaluate order 0/1/2, global evaluate, update same shape / other segment count / other coefficient count, rejected update, copy, assign over a warm object, derivative()} every evaluation and derivative trajectory of every live object is node-identical to a fresh object built from the data it must reflect; spline trajectories after update (both overloads) equal a fresh spline and earlier copies keep the old data.',
            'sequence length <= 3; shapes listed in evidence'),
    'C15': ('s5/C15', TECH + 'parameterised user-type maps with symbolic parameters that the destructor overwrites with POISON, sources in harness-owned placement storage; UF / node identity of every observable of the copy against a fresh optimizer configured like the source at copy time',
            'For every source configuration ({default,user} time map x {default,user} spatial map x built-in workspace yes/no), every way of copying (copy-construct, assign over an optimizer with / without workspace, self-assign) and every sequence of up to 2 later operations (source re-flagged / re-initialised / assigned from another optimizer / destroyed / evaluated; user map parameters changed; copy reset to default maps): dimension, initial guess, cost, gradient, functor arguments, exposed spline and validity flags of the copy are node-identical to a fresh optimizer; the copied built-in workspace equals the source\'s at copy time and is unaffected afterwards; spline copies / assignments are unaffected by updates of the source and vice versa.',
            'memory errors without an effect on a scalar value are invisible (DESIGN s7)'),
    'C19': ('s5/C19', TECH + 'polynomial user costs with symbolic coefficients and an optional symbolic gradient error; node identity of analytical / numerical against separately recorded evaluate() calls at x and x +- eps e_i; Real interpretation (cuts at the two gradient vectors) for the norms; verdict located as the recorded comparison error_norm < tol; nlsat for the verdict semantics on the smallest instances',
            'analytical == gradient of evaluate(x); numerical[i] == (cost(x+eps e_i) - cost(x-eps e_i))/(2 eps) with the right component, step and restoration; error_norm == ||analytical - numerical||, rel_error per its formula on the branch taken, valid == (error_norm < tol), report text coherent; workspace spline afterwards == spline of evaluate(x); 3-cost / 2-cost, explicit / built-in workspace, default / explicit eps and tol, correct functors and single perturbed components. Verdict semantics on the smallest instances: exact component statements, norm inequality over a box of cost coefficients.',
            'KNOWN FINDING (known_findings.json): correct functors with very large gradients are reported FAILED (absolute tolerance)'),
    'C16': ('s5/C16', 'symbolic execution of the real headers (recording scalar): every finiteness test / threshold comparison is a fork; paths enumerated by re-execution, feasibility and verdict==specification decided by z3 in the IEEE-754 theory (QF_FP) over all binary64 inputs incl. NaN and +-inf; concrete enumeration for size mismatches, PPolyND shapes and at() index classes',
            'On every explored path the value returned by setInitState (both overloads) equals the specification predicate for every binary64 input of that path (all paths for small configurations; all paths within 1-2 flipped decisions of the all-valid path for larger ones); isValid, operator bool, getLastError and checkValidity agree with it after every call in every initialisation sequence up to length 2 (3 thorough); size mismatches; PPolyND rejection conditions and at() on 7 index classes.',
            'int arguments by class; larger configurations by bounded flips; observation on checkValidity after the empty-time-points early return in DESIGN s8'),
    'C17': ('s5/C17', TECH + 'all branch combinations of QuadInvTimeMap by the path explorer; Real interpretation (nlsat, sqrt as y>=0,y*y=x) + AD for the backward rule; IEEE-754 binary64 check of positivity / range / radicand sign by CBMC on the recorded path printed as straight-line C',
            'For every real tau: toTime > 0, strictly increasing on all three feasible branch pairs, value and derivative of both branch formulas agree at the switch, toTau(toTime(tau)) == tau and toTime(toTau(T)) == T for T > 0 (radicands non-negative), backward == g * d toTime/d tau on every feasible branch pair and independent of its T argument; identity map returns its arguments (node identity). Binary64 (CBMC): toTime finite and > 0 for |tau| <= 1e6, >= 1 on the positive branch and <= 1 on the other, toTau finite with non-negative radicand for T in [1e-6, 1e6].',
            'IEEE-level monotonicity between adjacent doubles inside one branch is NOT established (no verdict from the SAT back ends, DESIGN s3.6)'),
    'C20': ('s5/C20', TECH + 'integer-valued fork on floor((end-start)/dt) (one path per step count 0..6, path condition solver-checked); Real interpretation for the sequence contract, UF for batch == pointwise and the Riemann-sum identity',
            'For symbolic start <= end and dt > 0 and every step count 0..6: first sample == start, sample i == start + i dt, strictly increasing, no sample beyond end + 1e-6, end appended iff the last regular sample is more than 1e-6 short, last element within 1e-6 of end; batch == pointwise; getTrajectoryLength == left Riemann sum of ||v|| over the generated sequence; zero()/constant() factories initialised on the given breakpoints with the specified values at every t and order.',
            'exact-real reading: IEEE floor/rounding edge cases and step counts > 6 (incl. int overflow) are outside the claim'),
    'C04': ('s5/C04', TECH + 'Real interpretation with cut at published coefficients/durations',
            'getEnergy equals the exact integral of the squared s-th derivative for EVERY coefficient set and every positive duration (cut points), on all construction/update routes incl. re-fit after an energy query and on recorded paths selected by very short / very long durations; non-negativity of the closed form for N=1.',
            'as C01; sizes N<=3(4), DIM<=3(4,10)'),
    'C05': ('s5/C05', TECH + 'Real interpretation + exact forward-mode AD of the recorded construction DAG; UF for history independence',
            'propagateGrad equals J^T g with the Jacobian taken by AD of the real construction code, for every data value and every upstream-gradient entry (all symbolic), for all positive durations up to the T-all caps and for grid duration vectors beyond; value and reference overloads; independence of earlier calls and of reused output structs (node identity).',
            'as C01; gradient caps in evidence'),
    'C06': ('s5/C06', TECH + 'Real interpretation + AD; cut at coefficients for the partials',
            'Analytic energy gradients equal the AD derivative of the recorded getEnergy through the construction map; partial gradients equal the derivatives of the exact energy integral for every coefficient set (cut); propagateGrad(partials) equals the analytic gradients; reference overloads into dirty pre-sized buffers equal the value overloads.',
            'as C01'),
    'C13': ('s5/C13', TECH + 'merged DAGs of the D-dim and D one-dimensional runs; UF (node identity) first, Real otherwise',
            'D-dimensional coefficients, evaluations, propagated and energy point/boundary gradients are node-identical (bit-identical) or exactly equal to those of the 1-D splines of each coordinate; energy and duration gradients are the sums; coordinate permutations permute outputs. D in {2,3,4(,10)}.',
            'as C01'),
    'C14': ('s5/C14', TECH + 'Real interpretation for the scaling/translation/reversal relations, UF for start-time independence',
            'Shift, translation, data scaling, time scaling and time reversal relations on coefficients (via all Taylor coefficients of every piece), energy, energy gradients and propagateGrad(energy partials), DIM 1/2/4, with symbolic shift / translation / scale factors; the transformed problem is also applied by re-updating the original object.',
            'as C01'),
}
QUICK = './check %s --tier quick'
THOR = './check %s --tier thorough'


def main():
    ids = [json.loads(l)['id'] for l in open(os.path.join(V, 'properties.jsonl'))]
    na_reasons = json.load(open(os.path.join(V, 'tools', 'not_applicable.json')))
    checks = []
    for i in ids:
        if i not in CLAIMED:
            continue
        ref, tech, text, note = CLAIMED[i]
        checks.append({'property_id': i, 'quick_cmd': QUICK % i, 'thorough_cmd': THOR % i, 'evidence_file': 'evidence/%s.json' % i,
                       'replay_cmd_template': './check %s --replay {path}' % i, 'engine': 'symx',
                       'level_claimed': {'category': 'other', 'text': text, 'design_ref': 'DESIGN.md ' + ref},
                       'level_note': note, 'technique': tech})
    na = [{'property_id': i, 'reason': na_reasons.get(i, 'check not built yet (work in progress)')} for i in ids if i not in CLAIMED]
    m = {'version': 1,
         'setup_cmd': 'mkdir -p build evidence replay && python3-vt -c "import z3; print(z3.get_version_string())"',
         'hooks': {'guard': 'SPLINETRAJECTORY_VERIF', 'enable': 'no source hooks: checks compile /repo/include/*.hpp unmodified with `#define double ::symx::Sym` (symx/pre.hpp)',
                   'baseline_off_cmd': '/verif/tools/run_suite.sh /repo',
                   'source_commits': [], 'add_only': True},
         'engines': [{'name': 'symx', 'path': 'enc/ symx/ harness/ props/', 'serves_properties': sorted(CLAIMED),
                      'kind_free_text': 'solver-based checking: symbolic execution of the real C++ headers by scalar substitution, SMT (z3) over the recorded DAG, native replay of counterexamples'}],
         'checks': checks, 'not_applicable': na,
         'notes': 'All checks rebuild their harness TUs against /repo/include as it is at run time (content-hash build cache under build/). VERIF_SEED seeds shadow inputs / random grid members only.'}
    json.dump(m, open(os.path.join(V, 'MANIFEST.json'), 'w'), indent=1)


if __name__ == '__main__':
    main()
