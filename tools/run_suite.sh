#!/bin/sh
# usage: run_suite.sh <repo-worktree>   -- builds the repository's test binaries (Release flags of its CMakeLists) and runs them all.
# exit 0 iff everything builds, every binary exits 0 and no line contains FAIL.
W=${1:-/repo}
cd "$W" || exit 2
cmake -G Ninja -B _build >/dev/null 2>&1 || { echo "cmake configure failed"; exit 2; }
cmake --build _build -j${JOBS:-6} > _build/build.log 2>&1 || { echo "build failed"; tail -30 _build/build.log; exit 2; }
fail=0
for t in test_ppolyND test_Grad test_bc_grad test_cost_grad test_cubic_spline_vs_minco_nd test_quintic_spline_vs_minco_nd test_septic_spline_vs_minco_nd test_with_min_jerk_3d test_with_min_snap_3d; do
  out=$(timeout 900 ./_build/$t 2>&1); rc=$?
  npass=$(printf '%s\n' "$out" | grep -c 'PASS'); nfail=$(printf '%s\n' "$out" | grep -c -E 'FAIL|失败')
  echo "$t rc=$rc pass_lines=$npass fail_lines=$nfail"
  if [ $rc -ne 0 ] || [ $nfail -ne 0 ]; then fail=1; printf '%s\n' "$out" | grep -E 'FAIL|失败' | head -5; fi
done
[ $fail -eq 0 ] && echo "SUITE OK" || echo "SUITE FAILED"
exit $fail
