#!/usr/bin/env python3
"""Mutation sweep (self-test of the checks, not part of any registered command): generates small syntactic mutants of
the two headers in scratch copies under /tmp, runs the checks that the mutated region is anchored to (fastest first,
stopping at the first kill) and appends one line per mutant to a TSV.  Survivors are the interesting output: each is
either an equivalent mutant or a blind spot.
usage: tools/mutate.py --n 60 --seed 1 --out /verif/seeded/sweep.tsv [--region cubic|quintic|septic|ppoly|opt|tmap]"""
import argparse, os, random, re, shutil, subprocess, sys, tempfile, time

REGIONS = {
    'ppoly':   ('SplineTrajectory.hpp', 100, 615, ['C11', 'C20', 'C03', 'C16']),
    'cubic':   ('SplineTrajectory.hpp', 690, 1300, ['C04', 'C13', 'C10', 'C14', 'C01', 'C06', 'C05', 'C02', 'C08']),
    'quintic': ('SplineTrajectory.hpp', 1400, 2308, ['C04', 'C13', 'C10', 'C14', 'C01', 'C06', 'C05', 'C02', 'C08']),
    'septic':  ('SplineTrajectory.hpp', 2420, 3626, ['C04', 'C13', 'C10', 'C14', 'C01', 'C06', 'C05', 'C02', 'C08']),
    'tmap':    ('SplineOptimizer.hpp', 262, 298, ['C17', 'C09', 'C07']),
    'opt':     ('SplineOptimizer.hpp', 394, 1264, ['C12', 'C15', 'C10', 'C08', 'C19', 'C09', 'C16', 'C07']),
}

OPS = [
    ('lit',   re.compile(r'(?<![\w.])(\d+\.\d+)(?![\w.])'), None),
    ('addsub', re.compile(r' ([+-]) (?!=)'), None),
    ('muldiv', re.compile(r' (\*) (?!=)'), None),
    ('rel',   re.compile(r' (<=|>=|<|>|==|!=) '), None),
    ('idx',   re.compile(r'\b(i|k|m|j) ([+-]) 1\b'), None),
    ('asg',   re.compile(r' (\+=|-=) '), None),
    ('del',   re.compile(r'^\s*[A-Za-z_][\w.>\-]*(\(\))?\.?(setZero|invalidateDerivativeCaches|markLayoutDirty|clear|resize)\(.*\);\s*$'), None),
]


def mutate_line(line, rng):
    cands = []
    code = line.split('//')[0]
    if not code.strip() or code.strip().startswith(('#', '*', '/*', 'static_assert', 'template', 'using ', 'typename')):
        return None
    if 'errors.push_back' in code or 'std::to_string' in code or '<<' in code:
        return None
    for name, rx, _ in OPS:
        for m in rx.finditer(code):
            cands.append((name, m))
    if not cands:
        return None
    name, m = rng.choice(cands)
    if name == 'lit':
        v = float(m.group(1))
        new = repr(v + 1.0) if v == 0.0 else repr(v * 2.0 if rng.random() < 0.5 else v + 1.0)
        return name, line[:m.start(1)] + new + line[m.end(1):]
    if name == 'addsub':
        return name, line[:m.start(1)] + ('-' if m.group(1) == '+' else '+') + line[m.end(1):]
    if name == 'muldiv':
        return name, line[:m.start(1)] + '+' + line[m.end(1):]
    if name == 'rel':
        sw = {'<': '<=', '<=': '<', '>': '>=', '>=': '>', '==': '!=', '!=': '=='}
        return name, line[:m.start(1)] + sw[m.group(1)] + line[m.end(1):]
    if name == 'idx':
        return name, line[:m.start(2)] + ('-' if m.group(2) == '+' else '+') + line[m.end(2):]
    if name == 'asg':
        return name, line[:m.start(1)] + ('=' if m.group(1) == '+=' else '+=') + line[m.end(1):]
    if name == 'del':
        return name, re.sub(r'\S.*$', ';', line.rstrip('\n'), count=1) + '\n'
    return None


def main():
    ap = argparse.ArgumentParser()
    ap.add_argument('--n', type=int, default=40)
    ap.add_argument('--seed', type=int, default=1)
    ap.add_argument('--out', default='/verif/seeded/sweep.tsv')
    ap.add_argument('--region', default=None)
    ap.add_argument('--jobs', default='8')
    ap.add_argument('--allchecks', action='store_true', help='do not stop at the first kill')
    a = ap.parse_args()
    rng = random.Random(a.seed)
    regions = [a.region] if a.region else list(REGIONS)
    done = 0
    tries = 0
    while done < a.n and tries < a.n * 20:
        tries += 1
        reg = rng.choice(regions)
        fn, lo, hi, checks = REGIONS[reg]
        src = open('/repo/include/' + fn).readlines()
        ln = rng.randrange(lo, min(hi, len(src)))
        mut = mutate_line(src[ln], rng)
        if not mut or mut[1] == src[ln]:
            continue
        kind, newline = mut
        d = tempfile.mkdtemp(prefix='mutrepo-', dir='/tmp')
        try:
            shutil.copytree('/repo/include', d + '/include')
            src2 = list(src)
            src2[ln] = newline
            open(d + '/include/' + fn, 'w').writelines(src2)
            killed, status = None, []
            for c in checks:
                env = dict(os.environ, SYMX_REPO=d, SYMX_REPLAY=d + '/replay', SYMX_BUILD=d + '/build', VERIF_JOBS=a.jobs)
                t = time.time()
                try:
                    r = subprocess.run(['/verif/check', c, '--tier', 'quick', '--no-evidence'], capture_output=True, text=True, env=env, timeout=1500)
                    out = r.stdout + r.stderr
                except subprocess.TimeoutExpired:
                    out = 'TIMEOUT'
                    r = None
                dt = time.time() - t
                if 'BUILD FAILED' in out:
                    status.append('%s:nobuild' % c)
                    killed = 'nobuild'
                    break
                nv = out.count('\nVIOLATION') + out.startswith('VIOLATION')
                nu = out.count('\nUNCONFIRMED')
                ne = out.count('TASK-ERROR') + out.count('TRANSLATOR-MISMATCH')
                bad = (r is None) or r.returncode != 0
                status.append('%s:%s(v%d,u%d,e%d,%.0fs)' % (c, 'KILL' if bad else 'ok', nv, nu, ne, dt))
                if bad and killed is None:
                    killed = c
                    if not a.allchecks:
                        break
            with open(a.out, 'a') as f:
                f.write('\t'.join([reg, '%s:%d' % (fn, ln + 1), kind, killed or 'SURVIVED', src[ln].strip()[:90], newline.strip()[:90], ' '.join(status)]) + '\n')
            done += 1
        finally:
            shutil.rmtree(d, ignore_errors=True)


if __name__ == '__main__':
    main()
