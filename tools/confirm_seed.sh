#!/bin/sh
# usage: confirm_seed.sh <worktree> <k> <seed-name> <property>   -- re-confirms an agent's seeded change and files it under /verif/seeded/<seed-name>/
W=$1; K=$2; NAME=$3; PROP=$4
cd $W || exit 2
git checkout -- include
CXX="g++ -std=c++17 -O2 -I include -I /usr/include/eigen3"
$CXX demo$K.cpp -o demo$K.bin 2>/dev/null || { echo "$NAME: demo does not compile on clean tree"; exit 1; }
./demo$K.bin >/dev/null 2>&1; rc_clean=$?
git apply patch$K.diff || { echo "$NAME: patch does not apply"; exit 1; }
$CXX demo$K.cpp -o demo$K.bin 2>/dev/null || { echo "$NAME: demo does not compile with patch"; git checkout -- include; exit 1; }
./demo$K.bin > demo$K.out 2>&1; rc_mut=$?
JOBS=${JOBS:-8} /verif/tools/run_suite.sh $W > suite$K.log 2>&1; rc_suite=$?
if [ $rc_suite -ne 0 ]; then JOBS=${JOBS:-8} /verif/tools/run_suite.sh $W > suite$K.log 2>&1; rc_suite=$?; fi
git checkout -- include; rm -rf _build demo$K.bin
echo "$NAME: demo clean rc=$rc_clean, demo mutated rc=$rc_mut, suite rc=$rc_suite ($(tail -1 suite$K.log))"
if [ $rc_clean -eq 0 ] && [ $rc_mut -ne 0 ] && [ $rc_suite -eq 0 ]; then
  mkdir -p /verif/seeded/$NAME
  cp patch$K.diff /verif/seeded/$NAME/patch.diff; cp demo$K.cpp /verif/seeded/$NAME/demo.cpp
  tail -5 demo$K.out > /verif/seeded/$NAME/demo_output_with_patch.txt
  echo "{\"property\": \"$PROP\", \"confirmed\": {\"demo_clean_rc\": $rc_clean, \"demo_mutated_rc\": $rc_mut, \"suite\": \"SUITE OK with patch (tools/run_suite.sh)\"}}" > /verif/seeded/$NAME/confirm.json
  echo "$NAME: KEPT"
else echo "$NAME: REJECTED"; fi
