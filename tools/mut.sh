#!/bin/sh
# usage: tools/mut.sh <patch.diff> <prop> [more props]   -- runs checks against a scratch copy of /repo with the patch applied
P=$1; shift
D=$(mktemp -d /tmp/mutrepo-XXXXXX)
cp -r /repo/include $D/include
(cd $D && git init -q . 2>/dev/null; patch -s -p1 < $P) || { echo "patch failed"; rm -rf $D; exit 2; }
for prop in "$@"; do
  echo "== $(basename $(dirname $P))/$(basename $P) vs $prop"
  SYMX_REPO=$D SYMX_REPLAY=$D/replay SYMX_BUILD=$D/build timeout 1500 /verif/check $prop --tier ${TIER:-quick} --no-evidence 2>&1 | grep -E "^VIOLATION|^UNCONFIRMED|^TASK-ERROR|tier=|^KNOWN" | awk '{print substr($0,1,260)}' | sort | uniq -c | sort -rn | awk 'NR<=4 || /tier=/'
done
rm -rf $D
