#include "SplineOptimizer.hpp"
#include <thread>
#include <cstdio>
using namespace SplineTrajectory;
int main() {
  using Opt = SplineOptimizer<2>;
  Opt opt;
  std::vector<double> T = {1.0, 1.2, 0.8};
  Opt::WaypointsType P(4, 2);
  P << 0, 0, 1, 0.5, 2, -0.3, 3, 0.2;
  BoundaryConditions<2> bc;
  opt.setInitState(T, P, 0.0, bc);
  OptimizationFlags f; f.start_v = true; f.end_p = true;
  opt.setOptimizationFlags(f);
  opt.setIntegralNumSteps(4);
  // no single-threaded getDimension()/evaluate() before the threads start: the lazy layout cache is still dirty
  auto tc = [](const std::vector<double> &Ts, Eigen::VectorXd &g) { double c = 0; for (size_t i = 0; i < Ts.size(); i++) { c += Ts[i]; g(i) += 1.0; } return c; };
  auto ic = [](double, double, int, const Eigen::Vector2d &p, const Eigen::Vector2d &, const Eigen::Vector2d &, const Eigen::Vector2d &, const Eigen::Vector2d &,
               Eigen::Vector2d &gp, Eigen::Vector2d &, Eigen::Vector2d &, Eigen::Vector2d &, Eigen::Vector2d &, double &) { gp += 2 * p; return p.squaredNorm(); };
  const int n = 3 + 2 * 2 + 2 + 2 + 2;  // times + 2 inner points + end point + start_v ... upper bound, resized below
  auto work = [&](double shift, double *out) {
    Opt::Workspace ws;
    Eigen::VectorXd x = Eigen::VectorXd::Constant(11, 0.3 + shift), g;
    *out = opt.evaluate(x, g, tc, ic, &ws);
  };
  double a, b;
  std::thread t1(work, 0.0, &a), t2(work, 0.1, &b);
  t1.join(); t2.join();
  std::printf("%g %g dim=%d\n", a, b, opt.getDimension());
  (void)n;
  return 0;
}
