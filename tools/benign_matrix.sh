#!/bin/sh
# usage: tools/benign_matrix.sh [checks...]  -- runs every behaviour-preserving refactoring under /verif/benign against the checks; any non-zero exit is a FALSE ALARM
cd /verif
CHECKS=${@:-$(python3 -c "import json; print(' '.join(c['property_id'] for c in json.load(open('MANIFEST.json'))['checks']))")}
OUT=${OUT:-benign/matrix.tsv}
for s in benign/*/; do
  n=$(basename $s)
  D=$(mktemp -d /tmp/mutrepo-XXXXXX); cp -r /repo/include $D/include
  (cd $D && patch -s -p1 < /verif/$s/patch.diff) || { echo "$n	-	patch-failed" >> $OUT; rm -rf $D; continue; }
  for c in $CHECKS; do
    if grep -q "^$n	$c	" $OUT 2>/dev/null; then continue; fi
    res=$(SYMX_REPO=$D SYMX_REPLAY=$D/replay SYMX_BUILD=$D/build VERIF_JOBS=${VERIF_JOBS:-8} timeout 2400 ./check $c --tier quick --no-evidence 2>&1)
    rc=$?
    echo "$n	$c	rc=$rc	$(printf '%s\n' "$res" | grep -E '^VIOLATION|^UNCONFIRMED|^TASK-ERROR|BUILD FAILED|TRANSLATOR|SOLVER-DIS' | head -2 | tr '\n' ' ' | cut -c1-300)" >> $OUT
  done
  rm -rf $D
done
