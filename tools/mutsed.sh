#!/bin/sh
# usage: tools/mutsed.sh '<sed expr>' <file-in-include> <prop> [more props]  -- run checks against a scratch copy of /repo/include with a sed mutation
E=$1; F=$2; shift; shift
D=$(mktemp -d /tmp/mutrepo-XXXXXX)
cp -r /repo/include $D/include
sed -i "$E" $D/include/$F
if diff -q /repo/include/$F $D/include/$F >/dev/null; then echo "mutation did not change anything"; rm -rf $D; exit 2; fi
diff /repo/include/$F $D/include/$F | head -8
for prop in "$@"; do
  echo "== $prop"
  SYMX_REPO=$D SYMX_REPLAY=$D/replay SYMX_BUILD=$D/build timeout 1500 /verif/check $prop --tier ${TIER:-quick} --no-evidence ${ONLY:+--only "$ONLY"} 2>&1 | grep -E "^VIOLATION|^UNCONFIRMED|^TASK-ERROR|tier=|^KNOWN|obligation:" | awk '{print substr($0,1,230)}' | sort | uniq -c | sort -rn | awk 'NR<=6 || /tier=/'
done
rm -rf $D
