import json, os
M = {
 'C01_s1': ('C01', 'QuinticSplineND::update(durations) skips updateCumulativeTimes/precomputeTimePowers when the duration vector compares equal to the stored one; start time ignored by the comparison', 'second update() on an initialised quintic with bit-identical durations and a DIFFERENT start time: knot times / breakpoints / end time stay at the old start', ['C10', 'C14'], 'missed by C01 (single construct/update); C14 (re-update with shifted start) and C10 (partially shared re-updates, added after this seed) catch it'),
 'C01_s2': ('C01', 'SepticSplineND::update(time points) delegates to update(durations) and drops the boundary argument (defaulted parameter hides it)', 'septic + time-point update overload + non-zero boundary velocity/acceleration/jerk', ['C01'], ''),
 'C02_s1': ('C02', 'quintic block solve: the last-block boundary term moved into the else branch of the first-block test', 'exactly N == 2 (single interior block is first and last) and non-zero end velocity/acceleration', ['C02'], ''),
 'C02_s2': ('C02', 'cubic solveSpline: interior right-hand side assembled only for n > 2 (segment count misread as point count), matrix zero-initialised', 'exactly N == 2 with two different chord slopes', ['C02'], ''),
 'C03_s1': ('C03', 'findSegment binary branch: upper_bound replaced by lower_bound over the interior breakpoints', '>= 32 segments and t exactly on an interior breakpoint (left piece used)', ['C03'], ''),
 'C03_s2': ('C03', 'hinted findSegment clamps an out-of-range hint but never writes it back on the same-segment fast path', 'hint < 0 with t in the first piece, or hint >= N with t in the last piece: value right, hint left out of range', ['C03'], ''),
 'C04_s1': ('C04', 'cubic getEnergy vectorised with strided Eigen::Map views whose stride is wrong for the column-major 1-D layout', 'CubicSplineND<1> with N >= 2', ['C04'], 'initially the check could not BUILD this change (Eigen::ArrayXd not covered by the scalar substitution): symx/pre.hpp now redirects all Eigen double typedefs'),
 'C04_s2': ('C04', 'septic getEnergy memoised; cache invalidated in update(durations) only', 'septic: getEnergy(), then update(time points), then getEnergy() again', ['C04', 'C10'], ''),
 'C05_s1': ('C05', 'septic propagateGrad, DIM > 3 branch: sign of the position term of d r4/d h_R flipped by a hoisting refactor', 'septic, DIM >= 4, N >= 2; only the time gradients are wrong', ['C05'], ''),
 'C05_s2': ('C05', 'quintic propagateGrad: guard clause returns before the boundary v/a gradients are written when there is no interior block', 'quintic, exactly N == 1', ['C05'], ''),
 'C06_s1': ('C06', 'septic propagateGrad DIM > 3 branch: dP taken from point_diffs_ (opposite sign convention)', 'septic, DIM >= 4; propagated time gradient only', ['C06'], ''),
 'C06_s2': ('C06', 'quintic getEnergyPartialGradByCoeffs(ref): resize+setZero only when the row count differs', 'reference overload with a caller buffer of the right size holding non-zero c0..c2 rows', ['C06'], ''),
 'C07_s1': ('C07', 'suffix accumulation of the explicit-time gradient replaced by a single-neighbour add', 'running cost with gt != 0 and N >= 3', ['C07'], ''),
 'C07_s2': ('C07', 'energy-gradient accumulation: end.j += rho * energy_grads.start.j (copy-paste)', 'septic, end_j flag, energy weight > 0', ['C07'], ''),
 'C08_s1': ('C08', 'segment start times via std::partial_sum that restarts from the first duration (start time lost for segments >= 1)', 'non-zero start time and N >= 2; cost and gradient stay mutually consistent', ['C08'], ''),
 'C08_s2': ('C08', 'waypoint cost block skipped when spatial_layout_ is empty', 'N == 1, start_p and end_p both false, 3-cost overload', ['C08'], 'first run hit a KeyError in the check (missing functor-argument outs): now reported as a violation'),
 'C09_s1': ('C09', 'setOptimizationFlags marks the layout dirty only when start_p/end_p changed', 'layout-building query, then flags with other derivative blocks but same endpoint flags, then another query', ['C09'], 'reported through a crash replay (heap corruption in generateInitialGuess) in the history task'),
 'C09_s2': ('C09', 'evaluate skips the spatial decode / gradient loops when there are no inner waypoints', 'N == 1 with start_p and/or end_p flagged', ['C09'], ''),
 'C10_s1': ('C10', 'cubic: cached tridiagonal factorisation reused unless times_dirty_, which the time-point update overload never sets', 'initialised cubic, then update(time points) with the same segment count and other breakpoints', ['C10'], ''),
 'C10_s2': ('C10', 'Workspace::resize returns whether it reallocated; cache_waypoints = ref_waypoints_ only then', 'explicit workspace reused at the same N for another problem / other flags / another optimizer', ['C10'], ''),
 'C11_s1': ('C11', 'dynamic derivative-factor table flattened with stride num_coeffs_ and kept across updates when large enough', 'dynamic-order PPolyND, > 8 coefficients, table built, then update to a SMALLER count still > 8 (12 -> 10)', ['C11'], 'initially MISSED (no history moved between two counts above 8): second other-coefficient-count operation added to the alphabet'),
 'C11_s2': ('C11', 'user-defined copy assignment copies the derivative caches only when the source has them and never resets the destination flags', 'destination already evaluated, source never evaluated, dst = src', ['C11'], ''),
 'C12_s1': ('C12', 'segment start time carried in a captured running variable inside the per-segment lambda', 'executor order other than 0..N-1, N >= 2, running cost that reads global time', ['C12'], 'initially MISSED (oracle outputs do not depend on their arguments): the check now compares every functor ARGUMENT across schedules'),
 'C12_s2': ('C12', 'integral-pass scratch buffers moved from the Workspace into a mutable member of the optimizer', 'two evaluations overlapping in time on one optimizer with private workspaces', ['C12'], 'caught by the nesting executor (second evaluation between two segment tasks)'),
 'C13_s1': ('C13', 'septic DIM > 3 propagateGrad: rhs1_R sign flipped by hoisting dP_R', 'septic, D >= 4, N >= 2; times output only', ['C13'], ''),
 'C13_s2': ('C13', 'cubic propagateGrad: early continue when the waypoint difference row isZero() also skips duration terms', 'two consecutive waypoints equal in every coordinate of the spline instance (1-D spline of a held coordinate) while the D-dim row is non-zero', ['C13'], 'initially only flagged as an unexplored data-dependent branch (UNCONFIRMED): the coverage loop for alternative paths now reaches the violating region and replays it'),
 'C14_s1': ('C14', 'same change as C02_s1 (quintic N == 2 end boundary term)', 'N == 2, non-zero end state: breaks time reversal', ['C14'], ''),
 'C14_s2': ('C14', 'septic updateCumulativeTimes accumulates elapsed time from 0 instead of the start time', 'septic with non-zero start time', ['C14'], ''),
 'C15_s1': ('C15', 'copy constructor compares other.active_time_map_ with its OWN default map address', 'copy construction, source on its default time map, then source re-assigned or destroyed; stateful map type', ['C15'], ''),
 'C15_s2': ('C15', 'copy assignment copies default_spatial_map_ only when the source is using it', 'assignment from a source with a user spatial map over an optimizer whose default map differs, then setSpatialMap(nullptr) on the copy', ['C15'], ''),
 'C16_s1': ('C16', 'setInitState(durations) no longer clears last_error_message_', 'invalid init followed by a valid init through the durations overload: verdict true, message still set', ['C16'], ''),
 'C16_s2': ('C16', 'fixed-order PPolyND bound rewritten in terms of the degree (accepts ORDER+1 coefficients)', 'fixed ORDER, exactly ORDER+1 coefficients with matching row count', ['C16'], ''),
 'C17_s1': ('C17', 'QuadInvTimeMap::backward branches on tau > 1.0', '0 < tau <= 1: backward uses the other branch formula', ['C17'], ''),
 'C17_s2': ('C17', 'toTime clamps the tau <= 0 branch to >= 1e-9 with std::max', 'tau below about -44720: flat, not invertible, backward disagrees', ['C17'], ''),
 'C19_s1': ('C19', 'final evaluate(x) in checkGradients removed', 'inspecting the workspace spline afterwards (left at x_last - eps)', ['C19'], ''),
 'C19_s2': ('C19', 'verdict uses rel_error instead of error_norm', 'large gradients: a wrong component far above tol is accepted', ['C19'], ''),
 'C20_s1': ('C20', 'end-append tolerance made relative to |end|', '|end| clearly above 1 and a last step short by (1e-6, 1e-6*|end|]', ['C20'], 'initially the check could not BUILD this change (std::max(double literal, library scalar)): mixed-type std helpers added to symx/sym.hpp'),
 'C20_s2': ('C20', 'getTrajectoryLength tracks the segment index with if instead of while', 'one step crossing two or more breakpoints', ['C20'], 'initially MISSED (trajectories had at most 2 segments): 3-segment length tasks added'),
}
for name, (prop, what, needs, det, note) in M.items():
    d = '/verif/seeded/' + name
    if not os.path.isdir(d):
        print('missing', name); continue
    c = {}
    if os.path.exists(d + '/confirm.json'):
        c = json.load(open(d + '/confirm.json'))
    meta = {'id': name, 'breaks_property': prop, 'change': what, 'needs_to_manifest': needs,
            'origin': 'independent sub-agent given only the property text and a scratch worktree of /repo',
            'confirmed_by_me': c.get('confirmed', {}),
            'what_i_ran': ['tools/confirm_seed.sh (demo exits 0 on the clean tree and non-zero with the patch; tools/run_suite.sh with the patch ends SUITE OK)',
                           'tools/mut.sh patch.diff <check> (checks run against a scratch copy of /repo/include with the patch applied; /repo itself untouched)'],
            'detected_by_checks': det, 'notes': note}
    json.dump(meta, open(d + '/meta.json', 'w'), indent=1)
print('done', len(M))
