"""Shared pieces of the gradient properties (C05, C06, C14): output naming and exact derivatives by AD."""
from fractions import Fraction
from enc import real as R
from . import common as C


def grad_out(prefix, key, N):
    """name of the Gradients-struct output that corresponds to input `key` = (kind, index, dim)."""
    kind, i, d = key
    if kind == 'h':
        return '%s.T.%d' % (prefix, i)
    if kind == 'P':
        if i == 0:
            return '%s.s.p.%d' % (prefix, d)
        if i == N:
            return '%s.e.p.%d' % (prefix, d)
        return '%s.P.%d.%d' % (prefix, i - 1, d)
    side = 's' if kind == 'start' else 'e'
    return '%s.%s.%s.%d' % (prefix, side, 'vaj'[i - 1], d)


def key_str(key):
    kind, i, d = key
    if kind == 'h':
        return 'duration %d' % i
    if kind == 'P':
        return 'waypoint %d[%d]' % (i, d)
    return '%s %s[%d]' % (kind, ['velocity', 'acceleration', 'jerk'][i - 1], d)


def mode_kwargs(t, pr):
    """Enc kwargs + post substitution for the duration tier of task t.  For gradients w.r.t. a duration on the grid the
    duration stays symbolic through AD and is substituted afterwards (post_subst)."""
    kw, post = {}, {}
    if t['mode'] == 'all':
        if pr.order >= 5:
            kw['inv_vars'] = list(pr.h)
    elif t['mode'] == 'grid':
        durs = [Fraction(x) for x in t['durs']]
        wrt = t.get('wrt_h')
        kw['subst'] = {h: x for i, (h, x) in enumerate(zip(pr.h, durs)) if i != wrt}
        if wrt is not None:
            post = {pr.h[wrt]: durs[wrt]}
    elif t['mode'] == 'line':
        durs = [Fraction(x) for x in t['durs']]
        kw['subst'] = {h: x for i, (h, x) in enumerate(zip(pr.h, durs)) if i != t['pos']}
    return kw, post
