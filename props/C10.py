"""C10 - results depend only on the latest inputs, not on object or workspace history (bit-identical to a fresh object)."""
import itertools
from fractions import Fraction
from enc import build, dag as D, real as R, ob as O
from . import common as C, optc as X

ID = 'C10'
LEVEL = C.LEVEL
EXPLANATION = C.EXPLANATION + ('; every problem of a history uses FRESH symbolic variables (or deliberately shares some inputs with its predecessor), dynamic Eigen buffers that are allocated without initialisation hold POISON: '
                               'an observable of the reused object that is not node-identical to the fresh object\'s depends on an older problem, on a skipped recomputation or on uninitialised storage')
ASSUMPTIONS = ['histories, sizes, overloads and the interleaved queries are concrete and enumerated; all data symbolic',
               'UF = bit-identity on Eigen scalar paths', 'data-dependent branches taken as the recorded shadows decide (the unchanged construction code has none; equality tests between inputs that a caching change would add follow the sharing pattern of the history)']
FUNCTIONS = ['Cubic/Quintic/SepticSplineND: constructors, update (durations / time points)', 'updateSplineInternal, precomputeTimePowers, precomputePointDiffs, solveSpline / solveInternalDerivatives (cache resizing), solveQuintic/solveSepticSpline',
             'getEnergy, getEnergyGrad*, getEnergyPartialGradBy*, propagateGrad (value / reference), getTrajectory().evaluate, Segment::evaluate', 'SplineOptimizer::Workspace::resize', 'SplineOptimizer::evaluate with a reused workspace (explicit and built-in)', 'setInitState']
OUTSIDE = ['histories longer than 3 updates (4, sampled, in the thorough tier)', 'segment counts above 4', 'DIM > 2 (spline part), DIM > 2 (workspace part)']
HARD_TIMEOUT = {'quick': 900, 'thorough': 3000}

SHARE = ['h', 'P', 't0', 'bc']


def cfg(tier):
    if tier == 'quick':
        return {'dims': (1, 2), 'sizes': (1, 2, 3, 4), 'triples': [(3, 1, 2), (1, 4, 2), (2, 3, 3), (4, 2, 1)], 'shareN': (1, 2, 3), 'ws': [(5, 2), (3, 1), (7, 1)]}
    return {'dims': (1, 2, 3), 'sizes': (1, 2, 3, 4), 'triples': [t for t in itertools.product((1, 2, 3, 4), repeat=3)], 'shareN': (1, 2, 3, 4), 'ws': [(o, d) for o in (3, 5, 7) for d in (1, 2)]}


def bounds(tier):
    c = cfg(tier)
    return {'orders': [3, 5, 7], 'DIM': list(c['dims']), 'size pairs N1->N2': 'all of %s^2, both final overloads, with and without interleaved queries' % (list(c['sizes']),),
            'size triples': len(c['triples']), 'three-step histories': 'construct, re-update keeping any of the 16 input subsets (either overload), re-update again (either overload; fresh / all kept / durations kept / all but durations kept; thorough: all 16 subsets)', 'partially shared re-updates': 'all 16 subsets of {durations, waypoints, start time, boundary state} kept from the previous problem, N in %s, both overloads' % (list(c['shareN']),),
            'workspace histories': 'explicit workspace reused across (optimizer A N=3) -> (optimizer B N=2, other flags) -> (A again) and same-size/other-flags/other-problem sequences; built-in workspace across setInitState with another N; (order, DIM) %s' % [list(x) for x in c['ws']]}


def tus(tier):
    c = cfg(tier)
    return [build.spline_tu(o, d) for o in C.ORDERS for d in c['dims']] + [build.opt_tu(o, d, 'quad', 'ident') for (o, d) in c['ws']]


def tasks(tier, seed):
    c = cfg(tier)
    T = []
    for o in C.ORDERS:
        for d in c['dims']:
            T.append({'name': 'pairs o%d d%d' % (o, d), 'fn': 'run_hist', 'order': o, 'dim': d, 'hists': [[a, b] for a in c['sizes'] for b in c['sizes']], 'seed': seed, 'timeout': 60})
            tr = c['triples']
            for i in range(0, len(tr), 16):
                T.append({'name': 'triples o%d d%d #%d' % (o, d, i // 16), 'fn': 'run_hist', 'order': o, 'dim': d, 'hists': [list(x) for x in tr[i:i + 16]], 'seed': seed, 'timeout': 60})
            if tier == 'thorough':
                rq = C.rng_for(seed, 'C10quad', o, d)
                quads = [[rq.choice(c['sizes']) for _ in range(4)] for _ in range(32)]
                T.append({'name': 'quadruples o%d d%d' % (o, d), 'fn': 'run_hist', 'order': o, 'dim': d, 'hists': quads, 'seed': seed, 'timeout': 60})
            T.append({'name': 'shared o%d d%d' % (o, d), 'fn': 'run_share', 'order': o, 'dim': d, 'Ns': list(c['shareN']), 'seed': seed, 'timeout': 60})
    for o in C.ORDERS:
        for d in c['dims']:
            T.append({'name': 'shared3 o%d d%d' % (o, d), 'fn': 'run_share3', 'order': o, 'dim': d, 'full': tier == 'thorough', 'seed': seed, 'timeout': 60})
    for (o, d) in c['ws']:
        T.append({'name': 'workspace o%d d%d' % (o, d), 'fn': 'run_ws', 'order': o, 'dim': d, 'seed': seed, 'timeout': 60})
    return T


def queries(s, obj, pre, pr, rng, upstream):
    """all observables of a spline object under prefix `pre`"""
    N, o = pr.N, pr.order
    rows = N * C.NC[o]
    s.add('sp.coeffs', obj, pre + 'c')
    s.add('sp.meta', obj, pre + 'm')
    s.add('sp.energy', obj, pre + 'E')
    s.add('sp.egrad', obj, pre + 'A', 'val')
    if pre.startswith('r'):
        # the reference-output overloads write into caller structs that earlier queries (other N) left dirty
        s.add('sp.egrad', obj, pre + 'Aref', 'ref', 'GR')
        s.add('sp.partials', obj, pre + 'Qref', 'refdirty')
    s.add('sp.partials', obj, pre + 'Q', 'val')
    g, gt = upstream(rows, N)
    s.add('sp.prop', obj, pre + 'G', 'val', rows, *g, N, *gt)
    if pre.startswith('r'):
        s.add('sp.prop', obj, pre + 'Gref', 'ref', 'GR2', rows, *g, N, *gt)
    for i in range(N):
        for k in (0, 1, C.SD[o]):
            s.add('sp.seg', obj, i, 'tl', k, '%sv%d_%d' % (pre, i, k))
    s.add('sp.eval', obj, 'tg', 1, pre + 'ev')


def junk_queries(s, obj, tag, pr, upstream, which):
    """read-only queries interleaved in a history (their outputs are not compared)"""
    N, o = pr.N, pr.order
    rows = N * C.NC[o]
    if 'E' in which:
        s.add('sp.energy', obj, tag + 'jE')
        s.add('sp.egrad', obj, tag + 'jA', 'ref', 'GR')
    if 'G' in which:
        g, gt = upstream(rows, N)
        s.add('sp.prop', obj, tag + 'jG', 'ref', 'GR2', rows, *g, N, *gt)
        s.add('sp.partials', obj, tag + 'jQ', 'val')
    if 'V' in which:
        s.add('sp.seg', obj, 0, 'tl', 2, tag + 'jv')
        s.add('sp.eval', obj, 'tg', 0, tag + 'jev')


def mk_upstream(s, d, rng):
    pool = {}

    def up(rows, N):
        g = []
        for r in range(rows):
            for dd in range(d):
                nm = 'u%d_%d' % (r, dd)
                if nm not in pool:
                    pool[nm] = s.var(nm, round(rng.uniform(-1, 1), 3))
                g.append(nm)
        gt = []
        for k in range(N):
            nm = 'ut%d' % k
            if nm not in pool:
                pool[nm] = s.var(nm, round(rng.uniform(-1, 1), 3))
            gt.append(nm)
        return g, gt
    return up


def tp_names(s, tag, N, rng):
    q, acc = [], rng.uniform(-1, 1)
    for i in range(N + 1):
        q.append(s.var('%sq%d' % (tag, i), round(acc, 3)))
        acc += rng.uniform(0.6, 1.7)
    return q


def compare_all(sc, g, a, b, what, ints_in_both=False):
    """every out / int with prefix a equals the one with prefix b (outputs of the reference overloads `<x>ref` are compared with the value overloads `<x>` of the other side)"""
    import re
    n = 0
    for k in sorted(g.outs):
        if k.startswith(a):
            k2 = b + re.sub(r'^(A|Q|G)ref', r'\1', k[len(a):])
            if k2 not in g.outs:
                sc.check('%s: observable %s exists for the fresh object' % (what, k[len(a):]), False, 'missing')
                continue
            sc.uf_eq('%s: %s == fresh object' % (what, k[len(a):]), k, k2)
            n += 1
    for k in sorted(g.ints):
        if k.startswith(a):
            kb = b + re.sub(r'^(A|Q|G)ref', r'\1', k[len(a):])
            if ints_in_both and kb not in g.ints:
                continue
            sc.int_eq('%s: %s == fresh object' % (what, k[len(a):]), k, g.ints.get(kb))
    return n


@C.run_scenarios
def run_hist(t):
    o, d = t['order'], t['dim']
    tu = build.spline_tu(o, d)
    out = []
    for sizes in t['hists']:
        for final_mode in ('dur', 'tp'):
            for qs in ('', 'EGV'):
                rng = C.rng_for(t['seed'], 'C10h', o, d, tuple(sizes), final_mode, qs)
                s = D.Script()
                s.var('tl', 0.21)
                s.var('tg', 0.83)
                up = mk_upstream(s, d, rng)
                probs = [C.Problem(s, 'p%d' % i, o, d, N, rng) for i, N in enumerate(sizes)]
                probs[0].new(s, 'S')
                for i in range(1, len(sizes)):
                    if qs:
                        junk_queries(s, 'S', 'j%d' % i, probs[i - 1], up, qs if i % 2 else qs[::-1])
                    last = (i == len(sizes) - 1)
                    if last and final_mode == 'tp':
                        q = tp_names(s, 'f', sizes[i], rng)
                        s.add('sp.update S tp', sizes[i] + 1, *q, sizes[i] + 1, *probs[i].flatP(), probs[i].bcname)
                        s.add('sp.new F tp', sizes[i] + 1, *q, sizes[i] + 1, *probs[i].flatP(), probs[i].bcname)
                    else:
                        if i % 2 == 0 and not last:
                            q = tp_names(s, 'm%d' % i, sizes[i], rng)
                            s.add('sp.update S tp', sizes[i] + 1, *q, sizes[i] + 1, *probs[i].flatP(), probs[i].bcname)
                        else:
                            probs[i].update(s, 'S')
                        if last:
                            probs[i].new(s, 'F')
                queries(s, 'S', 'r_', probs[-1], rng, up)
                queries(s, 'F', 'f_', probs[-1], rng, up)
                # read-only queries do not change later results: query everything a second time
                queries(s, 'S', 'r2_', probs[-1], rng, up)
                sc = O.Scenario(ID, '%s sizes=%s final=%s queries=%s' % (t['name'], '->'.join(map(str, sizes)), final_mode, qs or 'none'), tu, s, timeout=t['timeout'])
                compare_all(sc, sc.dag, 'r_', 'f_', 'after the history')
                compare_all(sc, sc.dag, 'r2_', 'f_', 'queried a second time')
                out.append(sc)
    return out


@C.run_scenarios
def run_share(t):
    """second problem keeps a subset of the first problem's inputs (the situation in which a 'skip recomputation when unchanged' shortcut fires)"""
    o, d = t['order'], t['dim']
    tu = build.spline_tu(o, d)
    out = []
    for N in t['Ns']:
        for mask in range(16):
            for mode in ('dur', 'tp'):
                keep = {SHARE[i] for i in range(4) if (mask >> i) & 1}
                rng = C.rng_for(t['seed'], 'C10s', o, d, N, mask, mode)
                s = D.Script()
                s.var('tl', 0.21)
                s.var('tg', 0.83)
                up = mk_upstream(s, d, rng)
                a = C.Problem(s, 'a', o, d, N, rng)
                b = C.Problem(s, 'b', o, d, N, rng)
                h2 = a.h if 'h' in keep else b.h
                P2 = a.flatP() if 'P' in keep else b.flatP()
                t02 = a.t0 if 't0' in keep else b.t0
                bc2 = a.bcname if 'bc' in keep else b.bcname
                if mode == 'dur':
                    a.new(s, 'S')
                    junk_queries(s, 'S', 'j', a, up, 'EG' if mask % 2 else '')
                    s.add('sp.update S dur', N, *h2, N + 1, *P2, t02, bc2)
                    s.add('sp.new F dur', N, *h2, N + 1, *P2, t02, bc2)
                else:
                    qa = tp_names(s, 'a', N, rng)
                    qb = tp_names(s, 'b', N, rng)
                    # time points: sharing the durations means the same time points; sharing only the start time means the same first point
                    q2 = qa if 'h' in keep else ([qa[0]] + qb[1:] if 't0' in keep else qb)
                    s.add('sp.new S tp', N + 1, *qa, N + 1, *a.flatP(), a.bcname)
                    junk_queries(s, 'S', 'j', a, up, 'EG' if mask % 2 else '')
                    s.add('sp.update S tp', N + 1, *q2, N + 1, *P2, bc2)
                    s.add('sp.new F tp', N + 1, *q2, N + 1, *P2, bc2)
                fin = C.Problem.__new__(C.Problem)
                fin.N, fin.order = N, o
                queries(s, 'S', 'r_', fin, rng, up)
                queries(s, 'F', 'f_', fin, rng, up)
                so = None
                sc = O.Scenario(ID, '%s N%d %s keep={%s}' % (t['name'], N, mode, ','.join(sorted(keep))), tu, s, timeout=t['timeout'])
                compare_all(sc, sc.dag, 'r_', 'f_', 're-update keeping {%s}' % ','.join(sorted(keep)))
                out.append(sc)
    return out


@C.run_scenarios
def run_share3(t):
    """three-step histories: construct (durations), update keeping a subset of the inputs (either overload), update again (either overload,
    fresh or partly kept inputs) - the situation in which a 'did the durations change?' flag set by one overload is consumed by the other"""
    o, d = t['order'], t['dim']
    tu = build.spline_tu(o, d)
    out = []
    N = 2
    masks3 = list(range(16)) if t['full'] else [0, 15, 1, 14]
    for m2 in range(16):
        for mode2 in ('dur', 'tp'):
            for m3 in masks3:
                for mode3 in ('dur', 'tp'):
                    rng = C.rng_for(t['seed'], 'C10t', o, d, m2, mode2, m3, mode3)
                    s = D.Script()
                    s.var('tl', 0.21)
                    s.var('tg', 0.83)
                    up = mk_upstream(s, d, rng)
                    probs = [C.Problem(s, 'abc'[i], o, d, N, rng) for i in range(3)]
                    qs = [tp_names(s, 'abc'[i], N, rng) for i in range(3)]
                    cur = {'h': probs[0].h, 'P': probs[0].flatP(), 't0': probs[0].t0, 'bc': probs[0].bcname, 'q': qs[0], 'mode': 'dur'}
                    s.add('sp.new S dur', N, *cur['h'], N + 1, *cur['P'], cur['t0'], cur['bc'])
                    for step, (mask, mode) in enumerate(((m2, mode2), (m3, mode3)), start=1):
                        keep = {SHARE[i] for i in range(4) if (mask >> i) & 1}
                        pr = probs[step]
                        nxt = {'P': cur['P'] if 'P' in keep else pr.flatP(), 'bc': cur['bc'] if 'bc' in keep else pr.bcname, 'mode': mode}
                        if mode == 'dur':
                            nxt['h'] = cur['h'] if ('h' in keep and cur['mode'] == 'dur') else pr.h
                            nxt['t0'] = cur['t0'] if ('t0' in keep and cur['mode'] == 'dur') else pr.t0
                            nxt['q'] = qs[step]
                        else:
                            same_q = 'h' in keep and cur['mode'] == 'tp'
                            nxt['q'] = cur['q'] if same_q else (([cur['q'][0]] + qs[step][1:]) if ('t0' in keep and cur['mode'] == 'tp') else qs[step])
                            nxt['h'], nxt['t0'] = pr.h, pr.t0
                        if step == 1 and (mask % 3 == 0):
                            junk_queries(s, 'S', 'j%d' % step, probs[0], up, 'EG')
                        for obj, cmd in (('S', 'sp.update'),) + ((('F', 'sp.new'),) if step == 2 else ()):
                            if mode == 'dur':
                                s.add(cmd, obj, 'dur', N, *nxt['h'], N + 1, *nxt['P'], nxt['t0'], nxt['bc'])
                            else:
                                s.add(cmd, obj, 'tp', N + 1, *nxt['q'], N + 1, *nxt['P'], nxt['bc'])
                        cur = nxt
                    fin = C.Problem.__new__(C.Problem)
                    fin.N, fin.order = N, o
                    queries(s, 'S', 'r_', fin, rng, up)
                    queries(s, 'F', 'f_', fin, rng, up)
                    sc = O.Scenario(ID, '%s step2=%s/%d step3=%s/%d' % (t['name'], mode2, m2, mode3, m3), tu, s, timeout=t['timeout'])
                    compare_all(sc, sc.dag, 'r_', 'f_', 'three-step history (kept-input masks %d, %d; overloads %s, %s)' % (m2, m3, mode2, mode3))
                    out.append(sc)
    return out


@C.run_scenarios
def run_ws(t):
    """optimizer workspaces reused across problems, sizes, flags and optimizers"""
    o, d = t['order'], t['dim']
    tu = build.opt_tu(o, d, 'quad', 'ident')
    out = []
    flA, flB = X.flags_from_int(0b11111111), X.flags_from_int(0b00100000)
    # each history: list of (optimizer key, problem key); the LAST entry is compared with a fresh workspace
    confs = {'A3': (3, flA), 'B2': (2, flB), 'C3': (3, flB), 'D3': (3, flA), 'E1': (1, flA), 'F4': (4, flB)}
    # key[:o2] = 2-cost overload (no waypoint cost), key[:r0] = energy weight 0 for that evaluation
    hists = [['A3', 'B2'], ['B2', 'A3'], ['A3', 'C3'], ['C3', 'A3'], ['A3', 'D3'], ['A3', 'B2', 'A3'], ['E1', 'A3'], ['A3', 'E1'], ['F4', 'B2', 'C3'], ['A3', 'A3'], ['C3', 'D3', 'B2'],
             ['A3', 'D3:o2'], ['A3:o2', 'D3'], ['A3', 'D3:r0'], ['A3:r0', 'C3'], ['A3', 'C3:o2:r0'], ['B2', 'E1:o2', 'B2']]
    for hi, h in enumerate(hists):
        for wsmode in ('explicit', 'builtin'):
            rng = C.rng_for(t['seed'], 'C10w', o, d, hi, wsmode)
            s = D.Script()
            rho = s.var('rho', 0.4)
            objs = {}
            xsets = {}
            s.add('opt.wsnew W')
            s.add('opt.wsnew WF')
            if wsmode == 'builtin':
                s.add('opt.new OB')
                s.add('opt.rho OB', rho)
                s.add('opt.steps OB 2')
            for step, key0 in enumerate(h):
                key, opts = key0.split(':')[0], key0.split(':')[1:]
                costs = 'o2' if 'o2' in opts else 'o3'
                rho_here = '0' if 'r0' in opts else rho
                N, fl = confs[key]
                tag = 'k%s%d' % (key, step)
                op = X.OptProblem(s, tag, o, d, N, rng)
                pts, blocks, n = X.ref_layout(o, N, d, fl, X.dof_ident(d))
                xs = op.xvars(n)
                X.declare_oracle(s, rng, 'e%d' % step, N, 2, d)
                last = (step == len(h) - 1)
                if wsmode == 'explicit':
                    s.add('opt.new', 'O%d' % step)
                    op.init('O%d' % step, 'I%d' % step)
                    X.set_flags(s, 'O%d' % step, fl)
                    s.add('opt.rho', 'O%d' % step, rho_here)
                    s.add('opt.steps', 'O%d' % step, 2)
                    X.eval_cmd(s, 'O%d' % step, 'R%d' % step, xs, ws='W', tag='e%d' % step, costs=costs)
                    if last:
                        # a copy of the used workspace behaves like the workspace (and like a fresh one)
                        s.add('opt.wscopy WC W')
                        X.eval_cmd(s, 'O%d' % step, 'RC', xs, ws='WC', tag='e%d' % step, costs=costs)
                        s.add('opt.wsspline W RS')
                        X.eval_cmd(s, 'O%d' % step, 'F', xs, ws='WF', tag='e%d' % step, costs=costs)
                        s.add('opt.wsspline WF FS')
                else:
                    op.init('OB', 'I%d' % step)
                    X.set_flags(s, 'OB', fl)
                    s.add('opt.rho OB', rho_here)
                    X.eval_cmd(s, 'OB', 'R%d' % step, xs, ws='-', tag='e%d' % step, costs=costs)
                    if last:
                        s.add('opt.spline OB RS')
                        s.add('opt.new OF')
                        s.add('opt.rho OF', rho_here)
                        s.add('opt.steps OF 2')
                        op.init('OF', 'IF')
                        X.set_flags(s, 'OF', fl)
                        X.eval_cmd(s, 'OF', 'F', xs, ws='-', tag='e%d' % step, costs=costs)
                        s.add('opt.spline OF FS')
            L = len(h) - 1
            sc = O.Scenario(ID, '%s %s history=%s' % (t['name'], wsmode, '->'.join(h)), tu, s, timeout=t['timeout'])
            g = sc.dag
            compare_all(sc, g, 'R%d.' % L, 'F.', 'evaluation with the reused workspace')
            if wsmode == 'explicit':
                compare_all(sc, g, 'RC.', 'F.', 'evaluation with a COPY of the reused workspace')
            compare_all(sc, g, 'R%d@' % L, 'F@', 'functor arguments with the reused workspace')
            compare_all(sc, g, 'RS.', 'FS.', 'workspace spline after reuse')
            out.append(sc)
    return out


def validation(tier, seed):
    v = []
    for o in C.ORDERS:
        rng = C.rng_for(seed, 'C10v', o)
        s = D.Script()
        s.var('tl', 0.21)
        s.var('tg', 0.83)
        up = mk_upstream(s, 2, rng)
        a = C.Problem(s, 'a', o, 2, 3, rng)
        b = C.Problem(s, 'b', o, 2, 2, rng)
        a.new(s, 'S')
        junk_queries(s, 'S', 'j', a, up, 'EGV')
        b.update(s, 'S')
        queries(s, 'S', 'r_', b, rng, up)
        v.append((build.spline_tu(o, 2), s, None))
    return v
