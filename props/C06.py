"""C06 - analytic energy gradients == exact derivatives of the reported energy; partials; propagate(partials)."""
from fractions import Fraction
import z3
from enc import build, dag as D, real as R, ob as O
from . import common as C, grad as G
from .C04 import energy_spec

ID = 'C06'
LEVEL = C.LEVEL
EXPLANATION = C.EXPLANATION + '; derivatives of the recorded getEnergy DAG by exact forward-mode AD'
ASSUMPTIONS = C.ASSUMPTIONS
FUNCTIONS = ['getEnergy', 'getEnergyGrad (value + reference overloads)', 'getEnergyGradTimes/InnerPoints/Boundary', 'getEnergyPartialGradByCoeffs/ByTimes (value + reference overloads)',
             'propagateGrad', 'constructors']
OUTSIDE = ['rounding', 'N above the caps']


def caps(tier):
    if tier == 'quick':
        return {'tall': {3: 3, 5: 2, 7: 2}, 'tall_dims': (1, 2), 'gridN': 4, 'grid_dims': (1, 2, 3), 'ngrid': 2, 'partN': (1, 2), 'part_dims': (1, 2, 4)}
    return {'tall': {3: 4, 5: 3, 7: 2}, 'tall_dims': (1, 2, 3), 'gridN': 6, 'grid_dims': (1, 2, 3, 4), 'ngrid': 5, 'partN': (1, 2, 3), 'part_dims': (1, 2, 3, 4)}


def bounds(tier):
    c = caps(tier)
    return {'T-all': 'N<=%s DIM %s' % (c['tall'], list(c['tall_dims'])), 'T-grid': 'N=1..%d DIM %s, %d grid vectors, d/dh_k with h_k symbolic through AD' % (c['gridN'], list(c['grid_dims']), c['ngrid']),
            'partials (cut at coefficients and durations: every coefficient set)': 'N in %s DIM %s' % (list(c['partN']), list(c['part_dims'])),
            'boundary data': 'all non-zero symbolic'}


def tus(tier):
    c = caps(tier)
    dims = set(c['grid_dims']) | set(c['tall_dims']) | set(c['part_dims']) | {4}
    return [build.spline_tu(o, d) for o in C.ORDERS for d in sorted(dims)]


def tasks(tier, seed):
    c = caps(tier)
    to = 60 if tier == 'quick' else 600
    T = []
    for o in C.ORDERS:
        for d in c['tall_dims']:
            for N in range(1, c['tall'][o] + 1):
                for grp in ('h', 'P', 'bc'):
                    T.append({'name': 'T-all o%d d%d N%d wrt-%s' % (o, d, N, grp), 'order': o, 'dim': d, 'N': N, 'mode': 'all', 'grp': grp, 'seed': seed, 'timeout': to})
        for d in (c['grid_dims'] + ((4,) if o == 7 and 4 not in c['grid_dims'] else ())):
            for N in range(1, c['gridN'] + 1):
                grid = C.duration_grid(o, N, tier, seed)
                pick = [grid[(3 + 2 * j) % len(grid)] for j in range(c['ngrid'])]
                for gi, g in enumerate(pick):
                    if d >= 3 and gi >= 1 and tier == 'quick':
                        continue
                    T.append({'name': 'T-grid o%d d%d N%d g%d %s data' % (o, d, N, gi, C.fmt_durs(g)), 'order': o, 'dim': d, 'N': N, 'mode': 'grid',
                              'durs': [str(x) for x in g], 'grp': 'data', 'seed': seed, 'timeout': to})
                    for k in range(N):
                        if d > 1 and tier == 'quick' and not (o == 7 and d == 4 and N <= 3):
                            continue
                        T.append({'name': 'T-grid o%d d%d N%d g%d %s wrt-h%d' % (o, d, N, gi, C.fmt_durs(g), k), 'order': o, 'dim': d, 'N': N, 'mode': 'grid',
                                  'durs': [str(x) for x in g], 'grp': 'h', 'wrt_h': k, 'seed': seed, 'timeout': to})
        for d in c['part_dims']:
            for N in c['partN']:
                T.append({'name': 'partials o%d d%d N%d' % (o, d, N), 'fn': 'run_partials', 'order': o, 'dim': d, 'N': N, 'seed': seed, 'timeout': to})
    return T


def build_script(o, d, N, seed):
    rng = C.rng_for(seed, 'C06', o, d, N)
    s = D.Script()
    pr = C.Problem(s, '', o, d, N, rng)
    pr.new(s, 'S')
    s.add('sp.coeffs S c')
    s.add('sp.meta S m')
    s.add('sp.energy S E')
    s.add('sp.egrad S A val')
    s.add('sp.egrad S Ar ref GS')
    s.add('sp.egrad S Ap parts')
    s.add('sp.partials S Q val')
    s.add('sp.partials S Qr ref')
    s.add('sp.partials S Qd refdirty')
    s.add('sp.prop S PG val partials')
    return s, pr


@C.run_scenarios
def run_task(t):
    o, d, N = t['order'], t['dim'], t['N']
    s, pr = build_script(o, d, N, t['seed'])
    kw, post = G.mode_kwargs(t, pr)
    so = {h: float(v) for h, v in kw.get('subst', {}).items()}
    so.update({h: float(v) for h, v in post.items()})
    sc = O.Scenario(ID, t['name'], build.spline_tu(o, d), s, timeout=t['timeout'], enc_kwargs=kw, shadow_override=so)
    sc.post_subst = post
    sc.positive(pr.h)
    E = sc.enc
    dag = sc.dag
    sc.int_eq('times gradient length', 'A.nT', N)
    sc.int_eq('inner point gradient rows', 'A.nP', max(0, N - 1))
    En = dag.outs['E']
    for key, nm in pr.inputs():
        kind = key[0]
        grp = 'h' if kind == 'h' else ('P' if kind == 'P' else 'bc')
        if t['grp'] == 'data':
            if grp == 'h':
                continue
        elif t['grp'] != grp:
            continue
        if t.get('wrt_h') is not None and not (kind == 'h' and key[1] == t['wrt_h']):
            continue
        dE = E.dnode(En, nm)
        ks = G.key_str(key)
        sc.real_eq('getEnergyGrad[%s] == d getEnergy / d(%s)' % (ks, ks), G.grad_out('A', key, N), dE)
        sc.uf_eq('reference overload == value overload [%s]' % ks, G.grad_out('Ar', key, N), G.grad_out('A', key, N))
        sc.uf_eq('individual getters == combined [%s]' % ks, G.grad_out('Ap', key, N), G.grad_out('A', key, N))
        sc.real_eq('propagateGrad(partials)[%s] == analytic gradient' % ks, G.grad_out('PG', key, N), E.out(G.grad_out('A', key, N)))
    sc.path_forced()
    sc.side_conditions()
    return [sc]


@C.run_scenarios
def run_partials(t):
    """cut at coefficients/durations: gdC == dE_ref/dc (T fixed), gdT == dE_ref/dT (c fixed) for EVERY coefficient set."""
    o, d, N = t['order'], t['dim'], t['N']
    s, pr = build_script(o, d, N, t['seed'])
    tu = build.spline_tu(o, d)
    g0 = D.run(tu, s.text())
    nc = C.NC[o]
    cuts = {}
    for r in range(N * nc):
        for dd in range(d):
            cuts[g0.outs['c.%d.%d' % (r, dd)]] = 'cc_%d_%d' % (r, dd)
    for i in range(N):
        cuts[g0.outs['m.seg.%d' % i]] = 'T%d' % i
    sc = O.Scenario(ID, t['name'], tu, s, timeout=t['timeout'], enc_kwargs={'cuts': cuts}, dag=g0)
    E = sc.enc
    for i in range(N):
        sc.assume.append(E.var('T%d' % i) > 0)
    cval = [[E.out('c.%d.%d' % (r, dd)) for dd in range(d)] for r in range(N * nc)]
    Tval = [E.out('m.seg.%d' % i) for i in range(N)]
    ref = energy_spec(E, o, d, N, cval, Tval)
    sc.int_eq('coefficient partial rows', 'Q.Crows', N * nc)
    sc.int_eq('duration partial length', 'Q.nT', N)
    for r in range(N * nc):
        for dd in range(d):
            sc.real_eq('dE/dC[%d,%d] == partial derivative of the energy integral' % (r, dd), 'Q.C.%d.%d' % (r, dd), E.dval(ref, 'cc_%d_%d' % (r, dd)))
            sc.uf_eq('reference overload dE/dC[%d,%d] == value overload' % (r, dd), 'Qr.C.%d.%d' % (r, dd), 'Q.C.%d.%d' % (r, dd))
            sc.uf_eq('reference overload into a pre-sized dirty buffer dE/dC[%d,%d] == value overload' % (r, dd), 'Qd.C.%d.%d' % (r, dd), 'Q.C.%d.%d' % (r, dd))
    for i in range(N):
        sc.real_eq('dE/dT[%d] == partial derivative of the energy integral (coefficients fixed)' % i, 'Q.T.%d' % i, E.dval(ref, 'T%d' % i))
        sc.uf_eq('reference overload dE/dT[%d] == value overload' % i, 'Qr.T.%d' % i, 'Q.T.%d' % i)
        sc.uf_eq('reference overload into a pre-sized dirty buffer dE/dT[%d] == value overload' % i, 'Qd.T.%d' % i, 'Q.T.%d' % i)
    return [sc]


def validation(tier, seed):
    v = []
    for o in C.ORDERS:
        s, pr = build_script(o, 3, 5, seed + 9)
        v.append((build.spline_tu(o, 3), s, None))
    return v
