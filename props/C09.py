"""C09 - decision-vector layout, dimension, pinning, initial-guess round trip, reconfiguration histories."""
import itertools
from fractions import Fraction
import z3
from enc import build, dag as D, real as R, ob as O, paths as P
from . import common as C, optc as X

ID = 'C09'
LEVEL = C.LEVEL
EXPLANATION = C.EXPLANATION + ('; the layout is compared with an independent reference function of (order, N, DIM, flags, per-index dof); decoded quantities are compared '
                               'with the decision / reference variables by node identity (UF) or with the map formulas in exact arithmetic')
ASSUMPTIONS = ['configurations (order, N, DIM, flags, map kind, history shape) are concrete and enumerated; decision vector, reference state and map parameters are symbolic',
               'each decoded duration depends syntactically only on its own decision variable (checked on the DAG), so the two runs "all tau_i > 0" / "all tau_i <= 0" cover every branch combination of the time map',
               'round trip: reference durations h_i >= 1 ms (the optimizer\'s own validity rule); user time map T = k tau^2 + c with k > 0, h_i > c; user affine spatial map with m0 != 0',
               'exact real arithmetic for the map formulas; node identity (bit-identical) for pinning and block placement']
FUNCTIONS = ['SplineOptimizer::getDimension/calculateDimension', 'ensureLayoutCache/rebuildLayoutCache/isSpatialOptimized/countOptimizedDerivativeBlocks', 'generateInitialGuess',
             'evaluate (decode part: time map, spatial map, boundary blocks, Spline::update)', 'getOptimalSpline -> getTimeSegments/getSpacePoints/getBoundaryConditions/getStartTime',
             'setInitState (durations)', 'setOptimizationFlags', 'setSpatialMap', 'setTimeMap', 'QuadInvTimeMap::toTime/toTau', 'IdentitySpatialMap']
OUTSIDE = ['N > 6', 'DIM > 3', 'histories longer than 3 reconfigurations', 'round trip for maps that are not invertible on the reference points']
HARD_TIMEOUT = {'quick': 900, 'thorough': 3000}


def cfg(tier):
    if tier == 'quick':
        return {'orders': (3, 5, 7), 'dims': (1, 2), 'Ns': (1, 2, 3), 'flags': list(range(256)), 'gen': [(5, 2), (7, 1), (3, 2)], 'genNs': (1, 2, 3), 'genflags': list(range(0, 256, 5)),
                'histlen': 3, 'hist': [(5, 2)]}
    return {'orders': (3, 5, 7), 'dims': (1, 2, 3), 'Ns': (1, 2, 3, 4, 5, 6), 'flags': list(range(256)), 'gen': [(o, d) for o in (3, 5, 7) for d in (1, 2, 3)], 'genNs': (1, 2, 3, 4), 'genflags': list(range(256)),
            'histlen': 4, 'hist': [(5, 2), (3, 1), (7, 2)]}


def bounds(tier):
    c = cfg(tier)
    return {'orders': list(c['orders']), 'DIM': list(c['dims']), 'N': list(c['Ns']), 'flag settings': len(c['flags']), 'time maps': 'QuadInvTimeMap (both branches), user map T=k tau^2+c',
            'spatial maps': 'IdentitySpatialMap; user affine map with full dof; user affine map with dof = DIM-1 at odd waypoint indices', 'user-map configurations (order, DIM)': [list(x) for x in c['gen']],
            'reconfiguration histories': 'all sequences up to length %d over {getDimension, generateInitialGuess, evaluate, flags A, flags B, user spatial map, default spatial map, user time map, default time map, setInitState with another N}' % c['histlen']}


def tus(tier):
    c = cfg(tier)
    L = [build.opt_tu(o, d, 'quad', 'ident') for o in c['orders'] for d in c['dims']]
    L += [build.opt_tu(o, d, 'gen', 'gen') for (o, d) in sorted(set(c['gen']) | set(c['hist']))]
    return L


def tasks(tier, seed):
    c = cfg(tier)
    T = []
    to = 60
    for o in c['orders']:
        for d in c['dims']:
            for N in c['Ns']:
                fl = c['flags']
                for i in range(0, len(fl), 64):
                    T.append({'name': 'layout ident o%d d%d N%d flags#%d' % (o, d, N, i // 64), 'order': o, 'dim': d, 'N': N, 'kind': 'ident', 'flags': fl[i:i + 64], 'seed': seed, 'timeout': to})
    for (o, d) in c['gen']:
        for N in c['genNs']:
            for mode in (0, 1, 3):
                fl = c['genflags']
                for i in range(0, len(fl), 64):
                    T.append({'name': 'layout gen%d o%d d%d N%d flags#%d' % (mode, o, d, N, i // 64), 'order': o, 'dim': d, 'N': N, 'kind': 'gen%d' % mode, 'flags': fl[i:i + 64], 'seed': seed, 'timeout': to})
    for o in c['orders']:
        T.append({'name': 'time-point init o%d' % o, 'fn': 'run_tp', 'order': o, 'seed': seed, 'timeout': to})
    for (o, d) in c['hist']:
        seqs = []
        for n in range(1, c['histlen'] + 1):
            seqs += list(itertools.product(HOPS, repeat=n))
        for i in range(0, len(seqs), 40):
            T.append({'name': 'history o%d d%d #%d' % (o, d, i // 40), 'fn': 'run_hist', 'order': o, 'dim': d, 'seqs': [list(x) for x in seqs[i:i + 40]], 'seed': seed, 'timeout': to})
    return T


def setup_maps(s, kind, rng):
    """declares the user maps of a gen TU; returns (time-map params, spatial-map params)"""
    k, c = s.var('tmk', round(rng.uniform(0.5, 1.5), 3)), s.var('tmc', round(rng.uniform(0.05, 0.3), 3))
    m0, m1, b, q = s.var('sm0', round(rng.uniform(0.6, 1.6), 3)), s.var('sm1', round(rng.uniform(-0.8, 0.8), 3)), s.var('smb', round(rng.uniform(-1, 1), 3)), s.var('smq', 0.25)
    s.add('opt.tmap TMU', k, c)
    s.add('opt.smap SMU', {'gen1': 1, 'gen3': 3}.get(kind, 0), m0, m1, b, q)
    return (k, c), (m0, m1, b, q)


def build_layout_script(o, d, N, kind, fl, seed, tau_sign, roundtrip_region=None):
    rng = C.rng_for(seed, 'C09', o, d, N, kind)
    s = D.Script()
    op = X.OptProblem(s, '', o, d, N, rng)
    dof = X.dof_for(kind, d)
    pts, blocks, n = X.ref_layout(o, N, d, fl, dof)
    xs = op.xvars(n, tau_sign=tau_sign)
    maps = None
    s.add('opt.new O')
    if kind != 'ident':
        maps = setup_maps(s, kind, rng)
        s.add('opt.settmap O TMU')
        s.add('opt.setsmap O SMU')
    op.init('O')
    X.set_flags(s, 'O', fl)
    s.add('opt.steps O 1')
    s.add('opt.dim O dim')
    s.add('opt.guess O G')
    X.eval_cmd(s, 'O', 'E', xs, costs='o2', tag='e0')
    s.add('opt.spline O SP')
    if kind == 'ident':
        for i in range(N):
            s.add('tm.toTime quad', xs[i], 'TT%d' % i)
    for j in range(n):
        s.add('bind gg%d G.%d' % (j, j))
    X.eval_cmd(s, 'O', 'E2', ['gg%d' % j for j in range(n)], costs='o2', tag='e0')
    s.add('opt.spline O SP2')
    return s, op, xs, pts, blocks, n, maps


def check_layout(sc, o, d, N, kind, fl, op, xs, pts, blocks, n, maps, roundtrip):
    g, E, pr = sc.dag, sc.enc, op.pr
    V = lambda nm: E.node(g.varid[nm])
    sc.int_eq('getDimension() == reference total', 'dim', n)
    sc.int_eq('initial guess has the reference size', 'G.n', n)
    sc.int_eq('gradient has the reference size', 'E.ng', n)
    sc.int_eq('exposed spline exists after an evaluation with the built-in workspace', 'SP.null', 0)
    sc.int_eq('exposed spline segment count', 'SP.nseg', N)
    sc.uf_node_eq('exposed spline start time is the reference start time', 'SP.start', g.varid[pr.t0])
    # durations
    for i in range(N):
        deps = g.vars_of([g.outs['SP.seg.%d' % i]])
        allowed = {xs[i]} | ({'tmk', 'tmc'} if kind != 'ident' else set())
        sc.check('duration %d depends on decision variable %d only' % (i, i), set(deps) <= allowed and xs[i] in deps, 'depends on %s' % deps)
        if kind == 'ident':
            sc.uf_eq('duration %d == toTime(x_%d) (the map\'s own function, node identity)' % (i, i), 'SP.seg.%d' % i, 'TT%d' % i)
        else:
            k, c = V('tmk'), V('tmc')
            sc.real_eq('duration %d == k x_%d^2 + c (user time map)' % (i, i), 'SP.seg.%d' % i, E.add(E.mul(k, E.mul(V(xs[i]), V(xs[i]))), c))
    # waypoints
    for i in range(N + 1):
        for dd in range(d):
            out = 'SP.pts.%d.%d' % (i, dd)
            if i not in pts:
                sc.uf_node_eq('waypoint %d[%d] pinned to its reference value' % (i, dd), out, g.varid[pr.P[i][dd]])
                continue
            off, df = pts[i]
            if kind == 'ident':
                sc.uf_node_eq('waypoint %d[%d] == x[%d]' % (i, dd, off + dd), out, g.varid[xs[off + dd]])
            else:
                m0, m1, b = V('sm0'), V('sm1'), V('smb')
                gi = E.mul(m0, E.add(R.VONE, E.scale(V('smq'), Fraction(i))))     # index-dependent gain of the user map
                spec = b
                if dd < df:
                    spec = E.add(spec, E.mul(gi, V(xs[off + dd])))
                if dd >= 1 and dd - 1 < df:
                    spec = E.add(spec, E.mul(m1, V(xs[off + dd - 1])))
                sc.real_eq('waypoint %d[%d] == toPhysical(x[%d..%d))' % (i, dd, off, off + df), out, spec)
    # boundary blocks
    for fld, flag, need in X.BLOCKS:
        if o < need:
            continue
        for dd in range(d):
            out = 'SP.bc.%s.%d' % (fld, dd)
            if fld in blocks:
                sc.uf_node_eq('boundary block %s[%d] == x[%d]' % (fld, dd, blocks[fld] + dd), out, g.varid[xs[blocks[fld] + dd]])
            else:
                sc.uf_node_eq('boundary state %s[%d] pinned to its reference value' % (fld, dd), out, g.varid[pr.bc[fld][dd]])
    # initial guess decodes back to the reference state
    if roundtrip:
        for i in range(N):
            deps = g.vars_of([g.outs['SP2.seg.%d' % i]])
            allowed = {pr.h[i]} | ({'tmk', 'tmc'} if kind != 'ident' else set())
            sc.check('round trip: duration %d depends on reference duration %d only' % (i, i), set(deps) <= allowed, 'depends on %s' % deps)
            sc.real_eq('round trip: decode(initial guess) duration %d == reference duration' % i, 'SP2.seg.%d' % i, V(pr.h[i]))
        for i in range(N + 1):
            for dd in range(d):
                if kind in ('gen1', 'gen3') and i in pts and pts[i][1] < d:
                    continue   # fewer unconstrained than physical coordinates: not invertible on arbitrary reference points
                sc.real_eq('round trip: waypoint %d[%d]' % (i, dd), 'SP2.pts.%d.%d' % (i, dd), V(pr.P[i][dd]))
        for fld, flag, need in X.BLOCKS:
            if o < need:
                continue
            for dd in range(d):
                sc.uf_node_eq('round trip: boundary state %s[%d]' % (fld, dd), 'SP2.bc.%s.%d' % (fld, dd), g.varid[pr.bc[fld][dd]])


@C.run_scenarios
def run_task(t):
    o, d, N, kind = t['order'], t['dim'], t['N'], t['kind']
    tu = build.opt_tu(o, d, 'quad', 'ident') if kind == 'ident' else build.opt_tu(o, d, 'gen', 'gen')
    out = []
    for m in t['flags']:
        fl = X.flags_from_int(m)
        for sign, region in ((1, 'hi'), (-1, 'lo')):
            s, op, xs, pts, blocks, n, maps = build_layout_script(o, d, N, kind, fl, t['seed'], sign, region)
            so = {h: (1.5 + 0.1 * i if region == 'hi' else 0.6 + 0.05 * i) for i, h in enumerate(op.pr.h)}
            sc = O.Scenario(ID, '%s flags=%s tau%s h-%s' % (t['name'].split(' flags')[0], X.flags_str(fl), '+' if sign > 0 else '-', region), tu, s, timeout=t['timeout'], shadow_override=so)
            pr = op.pr
            E = sc.enc
            sc.assume += [E.var(h) >= R.Q(Fraction(1, 1000)) for h in pr.h]
            if kind == 'ident':
                for h in pr.h:
                    sc.assume.append(E.var(h) > 1 if region == 'hi' else E.var(h) <= 1)
            else:
                sc.assume += [E.var('tmk') > 0, E.var('sm0') != 0, E.var('smq') > 0] + [E.var(h) > E.var('tmc') for h in pr.h]
            check_layout(sc, o, d, N, kind, fl, op, xs, pts, blocks, n, maps, True)
            # the reference-duration region forces the recorded branch of toTau/toTime in the round trip (so the two regions cover h > 0)
            # the branch tests of the time map: comparisons of a quantity derived from a reference duration with a CONSTANT (T > 1, tau > 0, t < 1e-3)
            rt_forks = [f for f in sc.dag.path if f[0] in ('lt', 'le') and f[1] >= 0 and f[2] >= 0 and (sc.dag.nodes[f[1]][0] == D.CONST or sc.dag.nodes[f[2]][0] == D.CONST)
                        and set(sc.dag.vars_of([x for x in (f[1], f[2]) if x >= 0])) & set(pr.h)]
            if rt_forks:
                pf = [E.path_formula(f) for f in rt_forks]
                r = R.solve('rt', sc.base(False) + [z3.Not(z3.And(pf))], t['timeout'])
                sc.queries += 1
                sc._rec('round trip: reference durations in the region (%s) force the recorded toTau/toTime branches' % ('h > 1' if region == 'hi' else '1e-3 <= h <= 1'), 'real', r.status if r.status != 'sat' else 'sat', r.t,
                        h=hash(('rt', region, N)), confirmed=False, model=r.model, note='inconsistent branch pair reachable')
            out.append(sc)
    return out


@C.run_scenarios
def run_tp(t):
    """setInitState(time points): start time == first time point, reference durations == differences; layout as for the duration overload"""
    o = t['order']
    out = []
    for d in (1, 2):
        tu = build.opt_tu(o, d, 'quad', 'ident')
        for N in (1, 2, 3):
            for fm in (0, 255, 0b00010001):
                fl = X.flags_from_int(fm)
                rng = C.rng_for(t['seed'], 'C09tp', o, d, N, fm)
                s = D.Script()
                op = X.OptProblem(s, '', o, d, N, rng)
                pr = op.pr
                q = [s.var('q%d' % i, 0.4 + 1.5 * i + 0.1 * (i % 2)) for i in range(N + 1)]
                pts, blocks, n = X.ref_layout(o, N, d, fl, X.dof_ident(d))
                xs = op.xvars(n, tau_sign=1)
                s.add('opt.new O')
                s.add('opt.init O I tp', N + 1, *q, N + 1, *pr.flatP(), pr.bcname)
                X.set_flags(s, 'O', fl)
                s.add('opt.steps O 1')
                s.add('opt.dim O dim')
                s.add('opt.guess O G')
                for j in range(n):
                    s.add('bind gg%d G.%d' % (j, j))
                X.eval_cmd(s, 'O', 'E2', ['gg%d' % j for j in range(n)], costs='o2', tag='e0')
                s.add('opt.spline O SP2')
                so = {'q%d' % i: 0.4 + 1.5 * i + 0.1 * (i % 2) for i in range(N + 1)}
                sc = O.Scenario(ID, '%s d%d N%d flags=%s' % (t['name'], d, N, X.flags_str(fl)), tu, s, timeout=t['timeout'], shadow_override=so)
                E = sc.enc
                g = sc.dag
                sc.assume += [E.var('q%d' % (i + 1)) - E.var('q%d' % i) > 1 for i in range(N)]
                sc.int_eq('initialisation accepted', 'I.ok', 1)
                sc.int_eq('dimension == reference', 'dim', n)
                sc.uf_node_eq('exposed spline starts at the first time point', 'SP2.start', g.varid['q0'])
                for i in range(N):
                    sc.real_eq('round trip: decode(initial guess) duration %d == difference of the time points' % i, 'SP2.seg.%d' % i, E.add(E.node(g.varid['q%d' % (i + 1)]), E.node(g.varid['q%d' % i]), -1))
                for i in range(N + 1):
                    for dd in range(d):
                        sc.uf_node_eq('round trip: waypoint %d[%d]' % (i, dd), 'SP2.pts.%d.%d' % (i, dd), g.varid[pr.P[i][dd]])
                out.append(sc)
    return out


# ---------------------------------------------------------------------- reconfiguration histories
HOPS = ['QD', 'QG', 'EV', 'FA', 'FB', 'SU', 'SN', 'TU', 'TN', 'IN']
FL_A = X.flags_from_int(0b00110101)
FL_B = X.flags_from_int(0b11001010)


@C.run_scenarios
def run_hist(t):
    o, d = t['order'], t['dim']
    tu = build.opt_tu(o, d, 'gen', 'gen')
    out = []
    for seq in t['seqs']:
        rng = C.rng_for(t['seed'], 'C09h', o, d, tuple(seq))
        s = D.Script()
        probs = [X.OptProblem(s, 'a', o, d, 2, rng), X.OptProblem(s, 'b', o, d, 3, rng)]
        pool = [s.var('x%d' % j, round(rng.uniform(0.2, 1.5), 3)) for j in range(4 + 4 * d + 6 * d)]
        setup_maps(s, 'gen1', rng)
        s.add('opt.deftm', s.var('dk', 0.8), s.var('dc', 0.2))
        s.add('opt.defsm 0', s.var('dm0', 1.2), s.var('dm1', 0.3), s.var('db', -0.4), s.var('dq', 0.1))
        s.add('opt.new O')
        st = {'prob': 0, 'fl': X.flags_from_int(0), 'smap': None, 'tmap': None}
        probs[0].init('O')
        s.add('opt.steps O 1')

        def nx():
            dof = X.dof_mode1(d) if st['smap'] else X.dof_ident(d)
            return X.ref_layout(o, probs[st['prob']].N, d, st['fl'], dof)[2]
        for idx, opn in enumerate(seq):
            if opn == 'QD':
                s.add('opt.dim O q%d' % idx)
            elif opn == 'QG':
                s.add('opt.guess O qg%d' % idx)
            elif opn == 'EV':
                X.eval_cmd(s, 'O', 'm%d' % idx, pool[:nx()], costs='o3', tag='t%d' % idx)
            elif opn in ('FA', 'FB'):
                st['fl'] = FL_A if opn == 'FA' else FL_B
                X.set_flags(s, 'O', st['fl'])
            elif opn == 'SU':
                st['smap'] = 'SMU'
                s.add('opt.setsmap O SMU')
            elif opn == 'SN':
                st['smap'] = None
                s.add('opt.setsmap O null')
            elif opn == 'TU':
                st['tmap'] = 'TMU'
                s.add('opt.settmap O TMU')
            elif opn == 'TN':
                st['tmap'] = None
                s.add('opt.settmap O null')
            elif opn == 'IN':
                st['prob'] = 1 - st['prob']
                probs[st['prob']].init('O', 'I%d' % idx)
        n = nx()
        # fresh optimizer configured directly with the final configuration
        s.add('opt.new F')
        if st['tmap']:
            s.add('opt.settmap F TMU')
        if st['smap']:
            s.add('opt.setsmap F SMU')
        X.set_flags(s, 'F', st['fl'])
        probs[st['prob']].init('F', 'IF')
        s.add('opt.steps F 1')
        for obj in ('O', 'F'):
            s.add('opt.dim', obj, obj + 'dim')
            s.add('opt.guess', obj, obj + 'G')
            X.eval_cmd(s, obj, obj + 'E', pool[:n], costs='o3', tag='e0')
            s.add('opt.spline', obj, obj + 'SP')
        sc = O.Scenario(ID, 'history o%d d%d %s' % (o, d, '-'.join(seq)), tu, s, timeout=t['timeout'])
        g = sc.dag
        sc.int_eq('dimension after the history == reference', 'Odim', n)
        sc.int_eq('fresh optimizer dimension == reference', 'Fdim', n)
        sc.int_eq('guess size', 'OG.n', n)
        for k in sorted(g.outs):
            if k.startswith('OG.') or k.startswith('OE.') or k.startswith('OSP.'):
                k2 = 'F' + k[1:]
                if k2 not in g.outs:
                    sc.check('output %s exists for the fresh optimizer' % k, False, 'missing ' + k2)
                    continue
                sc.uf_eq('%s after the history == fresh optimizer configured directly' % k[1:], k, k2)
        for k in g.ints:
            if k.startswith('OSP.') or k.startswith('OE.'):
                sc.int_eq('%s == fresh' % k[1:], k, g.ints.get('F' + k[1:]))
        out.append(sc)
    return out


def validation(tier, seed):
    v = []
    for (o, d, kind) in ((5, 2, 'ident'), (7, 1, 'ident'), (5, 2, 'gen1')):
        s, op, xs, pts, blocks, n, maps = build_layout_script(o, d, 2, kind, X.flags_from_int(0b10110101), seed, None, 'hi')
        v.append((build.opt_tu(o, d, 'quad', 'ident') if kind == 'ident' else build.opt_tu(o, d, 'gen', 'gen'), s, None))
    return v
