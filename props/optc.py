"""Shared pieces of the optimizer properties (C07-C10, C12, C15, C16, C19): problem scripts, reference layout, oracle variables."""
from fractions import Fraction
from enc import build, dag as D, real as R, ob as O
from . import common as C

FLAGS = ['start_p', 'start_v', 'start_a', 'start_j', 'end_p', 'end_v', 'end_a', 'end_j']
BLOCKS = [('sv', 'start_v', 3), ('sa', 'start_a', 5), ('sj', 'start_j', 7), ('ev', 'end_v', 3), ('ea', 'end_a', 5), ('ej', 'end_j', 7)]
ARGN = ['p', 'v', 'a', 'j', 's']
# covering arrays over the 8 optimisation flags: every pair / every triple of flags takes all its value combinations in some row
PAIRWISE = [0, 255, 135, 120, 83, 172, 226, 29]
TRIPLEWISE = [0, 255, 90, 53, 166, 201, 212, 99, 184, 15, 108, 147]


def flags_from_int(m):
    return {f: (m >> i) & 1 for i, f in enumerate(FLAGS)}


def flags_str(fl):
    return ''.join(str(fl[f]) for f in FLAGS)


def dof_ident(dim):
    return lambda i: dim


def dof_mode1(dim):
    return lambda i: max(1, dim - 1) if i % 2 == 1 else dim


def dof_mode3(dim):
    return lambda i: max(1, dim - 1) if i % 2 == 0 else dim


def dof_for(kind, dim):
    return dof_mode1(dim) if kind == 'gen1' else (dof_mode3(dim) if kind == 'gen3' else dof_ident(dim))


def ref_layout(order, N, dim, fl, dof):
    """Independent reference of the decision-vector layout (the statement of C09):
    returns (points: index -> (offset, dof), blocks: field -> offset, total dimension)."""
    off = N
    pts = {}
    for i in range(N + 1):
        if i == 0 and not fl['start_p']:
            continue
        if i == N and not fl['end_p']:
            continue
        pts[i] = (off, dof(i))
        off += dof(i)
    blocks = {}
    for fld, flag, need in BLOCKS:
        if fl[flag] and order >= need:
            blocks[fld] = off
            off += dim
    return pts, blocks, off


class OptProblem:
    """declares the symbolic reference state of an optimizer problem and the decision vector"""

    def __init__(self, s, tag, order, dim, N, rng, values=None):
        self.pr = C.Problem(s, tag, order, dim, N, rng, values=values)
        self.s, self.tag, self.order, self.dim, self.N = s, tag, order, dim, N
        self.rng = rng

    def init(self, obj, pre='I'):
        pr = self.pr
        self.s.add('opt.init', obj, pre, 'dur', self.N, *pr.h, self.N + 1, *pr.flatP(), pr.t0, pr.bcname)

    def xvars(self, n, prefix='x', tau_sign=None):
        """n decision variables; tau_sign: None (mixed random), +1 (all tau > 0), -1 (all tau < 0)"""
        xs = []
        for j in range(n):
            if j < self.N:
                v = round(self.rng.uniform(0.2, 1.2), 3)
                if tau_sign == -1 or (tau_sign is None and j % 2 == 1):
                    v = -v
            else:
                v = round(self.rng.uniform(-2, 2), 3)
            xs.append(self.s.var('%s%s%d' % (self.tag, prefix, j), v))
        return xs


def set_flags(s, obj, fl):
    s.add('opt.flags', obj, *[fl[f] for f in FLAGS])


def oracle_names(tag, N, K, dim, three=True):
    """all oracle variable names of one evaluation (declared up-front so that solver models can be replayed)"""
    names = [tag + '_tc'] + [tag + '_tg%d' % i for i in range(N)]
    if three:
        names += [tag + '_wc'] + [tag + '_wg%d_%d' % (i, d) for i in range(N + 1) for d in range(dim)]
    for i in range(N):
        for k in range(K + 1):
            n = '%s_s%d_k%d' % (tag, i, k)
            names.append(n + '_c')
            names += ['%s_g%s%d' % (n, a, d) for a in ARGN for d in range(dim)]
            names.append(n + '_gt')
    return names


def declare_oracle(s, rng, tag, N, K, dim, three=True):
    for n in oracle_names(tag, N, K, dim, three):
        if n not in s.shadows:
            s.var(n, round(rng.uniform(-1, 1), 3))


def eval_cmd(s, obj, pre, xs, ws='-', ex='serial', costs='o3', tag='e0'):
    s.add('opt.eval', obj, pre, len(xs), *xs, ws, ex, costs, tag)


def tu_for(o, d, kind):
    return build.opt_tu(o, d, 'quad', 'ident') if kind == 'ident' else (build.opt_tu(o, d, 'ident', 'ident') if kind == 'tident' else build.opt_tu(o, d, 'gen', 'gen'))


class EvalSetup:
    """one optimizer evaluation with oracle functors: script + everything the obligations need"""

    def __init__(self, o, d, N, K, fl, kind, rho_mode, seed, tau_sign, costs='o3', key='ev', ex='serial'):
        self.o, self.d, self.N, self.K, self.fl, self.kind, self.costs = o, d, N, K, fl, kind, costs
        rng = C.rng_for(seed, key, o, d, N, K, kind, flags_str(fl))
        s = self.s = D.Script()
        self.op = OptProblem(s, '', o, d, N, rng)
        self.pr = self.op.pr
        gmode = {'gen0': 0, 'gen1': 1, 'gen2': 2, 'gen3': 3, 'gen0T': 0}.get(kind)
        dof = dof_for(kind, d)
        self.pts, self.blocks, self.n = ref_layout(o, N, d, fl, dof)
        self.xs = self.op.xvars(self.n, tau_sign=tau_sign)
        if kind in ('tident', 'gen0', 'gen1', 'gen2', 'gen3', 'gen0T'):
            # identity / user time maps: keep the durations positive
            for i in range(N):
                s.shadows[self.xs[i]] = abs(s.shadows[self.xs[i]]) + 0.3
            s.lines = [('var %s %s' % (l.split()[1], D.f2hex(s.shadows[l.split()[1]])) if l.startswith('var ') and l.split()[1] in self.xs[:N] else l) for l in s.lines]
        self.rho_mode = rho_mode
        if rho_mode == 'zero':
            self.rho = '0'
        else:
            self.rho = s.var('rho', 0.7 if rho_mode == 'pos' else -0.3)
        declare_oracle(s, rng, 'e0', N, K, d, three=(costs[1] == '3'))
        s.add('opt.new O')
        if gmode is not None:
            self.tm = (s.var('tmk', round(rng.uniform(0.5, 1.5), 3)), s.var('tmc', round(rng.uniform(0.05, 0.3), 3)))
            self.sm = (s.var('sm0', round(rng.uniform(0.6, 1.6), 3)), s.var('sm1', round(rng.uniform(-0.8, 0.8), 3)), s.var('smb', round(rng.uniform(-1, 1), 3)), s.var('smq', 0.25))
            s.add('opt.tmap TMU', *self.tm, 1 if kind == 'gen0T' else 0)
            s.add('opt.smap SMU', gmode, *self.sm)
            s.add('opt.settmap O TMU')
            s.add('opt.setsmap O SMU')
        self.op.init('O')
        set_flags(s, 'O', fl)
        s.add('opt.rho O', self.rho)
        s.add('opt.steps O', K)
        eval_cmd(s, 'O', 'E', self.xs, ex=ex, costs=costs, tag='e0')
        s.add('opt.spline O SP')
        s.add('opt.energy O EN')

    def tu(self):
        return tu_for(self.o, self.d, self.kind)

    def domain(self, E, tau_sign):
        """assumptions describing the part of the input space this run covers"""
        fs = []
        for i in range(self.N):
            x = E.var(self.xs[i])
            if self.kind == 'ident':
                fs.append(x > 0 if tau_sign > 0 else x <= 0)
            elif self.kind in ('tident', 'gen0T'):
                fs.append(x > 0)
        if self.kind.startswith('gen'):
            fs += [E.var('tmk') > 0, E.var('tmc') > 0]
        if self.rho_mode == 'pos':
            fs.append(E.var('rho') > 0)
        elif self.rho_mode == 'neg':
            fs.append(E.var('rho') <= 0)
        fs += [E.var(h) >= R.Q(Fraction(1, 1000)) for h in self.pr.h]
        return fs
