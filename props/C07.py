"""C07 - the gradient written by an optimizer evaluation is the gradient of the cost returned by the same call."""
from fractions import Fraction
import z3
from enc import build, dag as D, real as R, ob as O
from . import common as C, optc as X

ID = 'C07'
LEVEL = C.LEVEL
EXPLANATION = C.EXPLANATION + ('; user cost functors are ORACLES (fresh symbolic value and gradient outputs per call); the expected gradient is the exact forward-mode derivative of the recorded cost node '
                               'in which every oracle value is a FUNCTION of the arguments it received with the oracle\'s own gradient outputs as partials (chain rule), i.e. the statement quantifies over all functors '
                               'that follow the protocol; time components are decided through a cut at the decoded durations: grad[i] == (d cost/d T_i) * (d toTime/d tau)(x_i)')
ASSUMPTIONS = ['orders, DIM, N, K, flags, map kinds concrete and enumerated; decision vector, reference state, start time, energy weight, map parameters and all oracle outputs symbolic',
               'protocol: the running cost depends on (p, v, a, j, s, global time, segment index); explicit dependence on the local time argument is outside the protocol',
               'cut at the decoded durations (T_i free, T_i > 0) - sound for unsat; a sat under the cut is re-decided with the cut tied to the real computation',
               'T-grid mode: the time variables are concrete rationals (all other inputs symbolic); derivatives are taken before the substitution',
               'each run covers one sign pattern of the time variables (all tau_i > 0 / all tau_i <= 0); the time map branch of segment i influences component i only (under the cut), so the two runs cover all patterns',
               'exact real arithmetic']
FUNCTIONS = ['SplineOptimizer::evaluate (3-cost, 2-cost)', 'calculateIntegralCost', 'Spline::update', 'Spline::propagateGrad', 'Spline::getEnergy/getEnergyGrad', 'Spline::computeBasisFunctions',
             'QuadInvTimeMap::toTime/backward', 'IdentityTimeMap', 'IdentitySpatialMap', 'user time map (T = k tau^2 + c; also with a backward rule written in terms of its T argument) and user spatial maps (affine full / reduced dof at odd or at even waypoint indices, element-wise quadratic) through setTimeMap/setSpatialMap',
             'ensureLayoutCache/rebuildLayoutCache']
OUTSIDE = ['N above the caps', 'K other than listed', 'DIM 4', 'functors that depend on the local time argument']
HARD_TIMEOUT = {'quick': 1200, 'thorough': 3600}

FLAGSETS_Q = X.PAIRWISE   # all value combinations of every PAIR of flags


def cfg(tier):
    if tier == 'quick':
        return {'tall': {3: (1, 2, 3), 5: (1, 2), 7: (1, 2)}, 'tgrid': {3: (4,), 5: (3, 4), 7: (3,)}, 'dims': (1, 2), 'K': (1, 2), 'flags': FLAGSETS_Q, 'gen': [(5, 2), (3, 1), (7, 2)], 'nflags_grid': 3}
    return {'tall': {3: (1, 2, 3), 5: (1, 2), 7: (1, 2)}, 'tgrid': {3: (4, 5), 5: (3, 4, 5), 7: (3, 4)}, 'dims': (1, 2), 'K': (1, 2, 3), 'flags': list(range(256)), 'gen': [(o, d) for o in (3, 5, 7) for d in (1, 2)], 'nflags_grid': 8}


def bounds(tier):
    c = cfg(tier)
    return {'T-all (durations symbolic through the cut, everything symbolic)': 'N in %s per order, DIM %s, K %s' % (c['tall'], list(c['dims']), list(c['K'])),
            'T-grid (time variables concrete rationals)': 'N in %s' % (c['tgrid'],), 'flag settings': '%d (quick: pairwise covering array over the 8 flags; thorough: all 256 at N=1/K=1/DIM 1, triple-wise covering array at DIM 1, pairwise at DIM 2)' % len(c['flags']), 'K=64': 'N=1, DIM 1, T-grid',
            'maps': 'QuadInv + identity spatial; identity time map; user maps on (order, DIM) %s' % [list(x) for x in c['gen']], 'energy weight': 'symbolic > 0 / literal 0 / symbolic <= 0', 'overloads': '3-cost, 2-cost'}


def tus(tier):
    c = cfg(tier)
    L = [build.opt_tu(o, d, 'quad', 'ident') for o in (3, 5, 7) for d in c['dims']]
    L += [build.opt_tu(o, 1, 'ident', 'ident') for o in (3, 5, 7)]
    L += [build.opt_tu(o, d, 'gen', 'gen') for (o, d) in c['gen']]
    return L


def tasks(tier, seed):
    c = cfg(tier)
    T = []
    to = 60 if tier == 'quick' else 240
    rng = C.rng_for(seed, 'C07flags')
    for o in (3, 5, 7):
        for d in c['dims']:
            for N in c['tall'][o]:
                for K in c['K']:
                    if tier == 'quick' and (d == 2 and K != 2):
                        continue
                    if tier == 'thorough' and ((d == 3 and N >= 3) or (o == 5 and N == 3 and (d > 1 or K > 2)) or (d == 2 and K == 3) or (K == 3 and N >= 3) or (d == 2 and N >= 3 and o != 3)):
                        continue     # beyond what nlsat finishes in minutes (measured: single tasks > 45 min); K=3 only at DIM 1
                    fl = c['flags']
                    if tier == 'thorough' and not (N == 1 and K == 1 and d == 1):
                        # all 256 settings at N=1, K=1, DIM 1; every TRIPLE of flags in all value combinations at DIM 1, every pair at DIM 2
                        fl = X.TRIPLEWISE if d == 1 else X.PAIRWISE
                    for i in range(0, len(fl), 8):
                        T.append({'name': 'T-all o%d d%d N%d K%d flags#%d' % (o, d, N, K, i // 8), 'order': o, 'dim': d, 'N': N, 'K': K, 'kind': 'ident', 'mode': 'all', 'flags': fl[i:i + 8], 'seed': seed, 'timeout': to})
            for N in c['tgrid'][o]:
                if d == 3 and N > 4:
                    continue
                fl = [0b11111111] + [rng.randrange(256) for _ in range(c['nflags_grid'] - 1)]
                for i in range(0, len(fl), 4):
                    T.append({'name': 'T-grid o%d d%d N%d K2 flags#%d' % (o, d, N, i // 4), 'order': o, 'dim': d, 'N': N, 'K': 2, 'kind': 'ident', 'mode': 'grid', 'flags': fl[i:i + 4], 'seed': seed, 'timeout': to})
        T.append({'name': 'T-grid o%d d1 N1 K64' % o, 'order': o, 'dim': 1, 'N': 1, 'K': 64, 'kind': 'ident', 'mode': 'grid', 'flags': [0b11111111], 'seed': seed, 'timeout': to})
        for N in (1, 2):
            T.append({'name': 'T-all tident o%d d1 N%d K2' % (o, N), 'order': o, 'dim': 1, 'N': N, 'K': 2, 'kind': 'tident', 'mode': 'all', 'flags': [0b11111111, 0b00100100], 'seed': seed, 'timeout': to})
    for (o, d) in c['gen']:
        for gk in ('gen0', 'gen1', 'gen2', 'gen3', 'gen0T'):
            for N in (1, 2) if (tier == 'quick' or o != 3) else (1, 2, 3):
                T.append({'name': 'T-all %s o%d d%d N%d K1' % (gk, o, d, N), 'order': o, 'dim': d, 'N': N, 'K': 1, 'kind': gk, 'mode': 'all', 'flags': [0b11111111, 0b10010110], 'seed': seed, 'timeout': to})
    return T


def install_oracle_deps(E, g, ev):
    """every oracle value is a function of the arguments it received, with the oracle's gradient outputs as partials"""
    N, K, d = ev.N, ev.K, ev.d
    V = lambda nm: E.node(g.varid[nm])
    if 'e0_tc' in g.varid:
        E.fdeps['e0_tc'] = [(V('e0_tg%d' % i), E.out('E@Ts.%d' % i)) for i in range(N) if 'e0_tg%d' % i in g.varid and 'E@Ts.%d' % i in g.outs]
    if 'e0_wc' in g.varid:
        E.fdeps['e0_wc'] = [(V('e0_wg%d_%d' % (i, dd)), E.out('E@W.%d.%d' % (i, dd))) for i in range(N + 1) for dd in range(d) if 'e0_wg%d_%d' % (i, dd) in g.varid and 'E@W.%d.%d' % (i, dd) in g.outs]
    for i in range(N):
        for k in range(K + 1):
            n = 'e0_s%d_k%d' % (i, k)
            rn = 'E@s%d_k%d' % (i, k)
            if n + '_c' not in g.varid or rn + '.tg' not in g.outs:
                continue
            deps = []
            for a in X.ARGN:
                for dd in range(d):
                    gn = '%s_g%s%d' % (n, a, dd)
                    if gn in g.varid:
                        deps.append((V(gn), E.out('%s.%s.%d' % (rn, a, dd))))
            if n + '_gt' in g.varid:
                deps.append((V(n + '_gt'), E.out(rn + '.tg')))
            E.fdeps[n + '_c'] = deps


def tau_values(N, sign, rng):
    vals = []
    for i in range(N):
        q = Fraction(rng.randint(2, 12), 8)
        vals.append(q if sign > 0 else -q)
    return vals


def check_grad(name, ev, tau_sign, mode, timeout, seed):
    o, d, N, K = ev.o, ev.d, ev.N, ev.K
    tu = ev.tu()
    if mode == 'grid':
        return check_grad_grid(name, ev, tau_sign, timeout, seed)
    g = D.run(tu, ev.s.text())
    cuts = {g.outs['SP.seg.%d' % i]: 'TT%d' % i for i in range(N)}
    sc = O.Scenario(ID, name, tu, ev.s, timeout=timeout, dag=g, enc_kwargs={'cuts': cuts})
    E = sc.enc
    sc.assume += ev.domain(E, tau_sign) + [E.var('TT%d' % i) > 0 for i in range(N)]
    install_oracle_deps(E, g, ev)
    sc.path_forced('the recorded branch decisions are the only ones on this part of the domain')
    sc.int_eq('gradient size', 'E.ng', ev.n)
    cost = E.out('E.cost')
    # --- time components through the cut
    for i in range(N):
        dc = E.dwrt(cost, 'TT%d' % i)
        dT = E.dwrt(E.node(g.outs['SP.seg.%d' % i], cut=False), ev.xs[i])
        sc.real_eq('grad[%d] (time variable %d) == dcost/dT_%d * dT_%d/dtau' % (i, i, i, i), 'E.g.%d' % i, E.mul(dc, dT))
    # --- spatial and boundary components: plain derivative w.r.t. the decision variable
    for j in range(N, ev.n):
        sc.real_eq('grad[%d] == dcost/dx_%d' % (j, j), 'E.g.%d' % j, E.dwrt(cost, ev.xs[j]))
    return [sc]


def check_grad_grid(name, ev, tau_sign, timeout, seed):
    """T-grid: the time variables are concrete rationals.  Derivatives are taken symbolically (cut at the durations, chain rule
    through the time map) and the concrete values are substituted afterwards, so every query is a polynomial identity in the data,
    map parameters and oracle outputs with rational coefficients."""
    o, d, N, K = ev.o, ev.d, ev.N, ev.K
    tu = ev.tu()
    rng = C.rng_for(seed, 'C07tau', o, d, N, tau_sign)
    tv = tau_values(N, tau_sign, rng)
    so = {ev.xs[i]: float(tv[i]) for i in range(N)}
    g = D.run(tu, ev.s.text(None, so))
    cuts = {g.outs['SP.seg.%d' % i]: 'TT%d' % i for i in range(N)}
    sc = O.Scenario(ID, name, tu, ev.s, timeout=timeout, dag=g, enc_kwargs={'cuts': cuts}, shadow_override=so)
    E = sc.enc
    install_oracle_deps(E, g, ev)
    sc.int_eq('gradient size', 'E.ng', ev.n)
    cost = E.out('E.cost')
    goals = []
    for i in range(N):
        dc = E.dwrt(cost, 'TT%d' % i)
        dT = E.dwrt(E.node(g.outs['SP.seg.%d' % i], cut=False), ev.xs[i])
        goals.append(('grad[%d] (time variable %d) == dcost/dT_%d * dT_%d/dtau at the grid point' % (i, i, i, i), 'E.g.%d' % i, E.mul(dc, dT)))
    for j in range(N, ev.n):
        goals.append(('grad[%d] == dcost/dx_%d' % (j, j), 'E.g.%d' % j, E.dwrt(cost, ev.xs[j])))
    for (nm, lhs, rhs) in goals:
        E.out(lhs)
    # concrete values, substituted after differentiation
    post = {ev.xs[i]: tv[i] for i in range(N)}
    env = {ev.xs[i]: tv[i] for i in range(N)}
    for nm in ('tmk', 'tmc'):
        if nm in g.varid:
            post[nm] = env[nm] = Fraction(ev.s.shadows[nm]).limit_denominator(1000)
    for i in range(N):
        post['TT%d' % i] = sc.eval_val(E.node(g.outs['SP.seg.%d' % i], cut=False), dict(env))
    sc.post_subst = post
    sc.assume += [f for f in ev.domain(E, tau_sign)]
    for (nm, lhs, rhs) in goals:
        sc.real_eq(nm, lhs, rhs)
    return [sc]


@C.run_scenarios
def run_task(t):
    o, d, N, K, kind, mode = t['order'], t['dim'], t['N'], t['K'], t['kind'], t['mode']
    out = []
    for fi, m in enumerate(t['flags']):
        fl = X.flags_from_int(m)
        signs = (1, -1) if kind == 'ident' else (1,)
        for sign in signs:
            rho_mode = ('pos', 'zero', 'pos', 'neg')[(fi * 2 + (sign > 0)) % 4]
            costs = 'o2' if (fi + (sign > 0)) % 4 == 3 else 'o3'
            ev = X.EvalSetup(o, d, N, K, fl, kind, rho_mode, t['seed'], sign, costs=costs, key='C07')
            out += check_grad('%s flags=%s tau%s rho-%s %s' % (t['name'].split(' flags')[0], X.flags_str(fl), '+' if sign > 0 else '-', rho_mode, costs), ev, sign, mode, t['timeout'], t['seed'])
    return out


def validation(tier, seed):
    v = []
    for (o, d, kind) in ((3, 2, 'ident'), (5, 2, 'gen1'), (7, 1, 'ident')):
        ev = X.EvalSetup(o, d, 2, 2, X.flags_from_int(0b11111111), kind, 'pos', seed, None, key='C07v')
        v.append((ev.tu(), ev.s, None))
    return v
