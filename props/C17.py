"""C17 - time maps: positive, strictly increasing, C^1 across the switch, inverse, backward == derivative; identity map."""
from fractions import Fraction
import z3
from enc import build, dag as D, real as R, ob as O, paths as P, fp as FP
from . import common as C

ID = 'C17'
LEVEL = C.LEVEL
EXPLANATION = C.EXPLANATION + ('; QuadInvTimeMap is executed symbolically on every feasible branch combination; Real interpretation for all tau / all T > 0 (no magnitude bound), '
                               'and a bit-precise IEEE-754 check (CBMC on the recorded path printed as straight-line C) for positivity, finiteness, range and radicand sign over |tau| <= 1e6, T in [1e-6, 1e6]')
ASSUMPTIONS = ['Real part: exact arithmetic, every real tau, every T > 0; sqrt encoded as y >= 0, y*y = radicand (radicand >= 0 is its own obligation)',
               'FP part: binary64 round-to-nearest, the C emitted from the recorded path is compiled with gcc and diffed against the native harness on concrete inputs in the translator validation',
               'NOT established at the IEEE level: monotonicity between adjacent doubles inside one branch (two copies of the kernel defeat the SAT back ends, DESIGN s3.6)']
FUNCTIONS = ['QuadInvTimeMap::toTime', 'QuadInvTimeMap::toTau', 'QuadInvTimeMap::backward', 'IdentityTimeMap::toTime/toTau/backward']
OUTSIDE = ['IEEE monotonicity between adjacent doubles within a branch', 'round-trip error bound at the IEEE level (attempted in the thorough tier only)', 'NaN arguments']
HARD_TIMEOUT = {'quick': 600, 'thorough': 3000}

TU = build.opt_tu(3, 1, 'quad', 'ident')


def bounds(tier):
    return {'Real': 'all tau, all T > 0, all gradients; every branch combination of toTime/toTau/backward', 'FP (CBMC)': '|tau| <= 1e6; T in [1e-6, 1e6]; per recorded path',
            'solver caps': '60 s per query; CBMC 120 s per kernel (quick) / 900 s (thorough)'}


def tus(tier):
    return [TU]


def tasks(tier, seed):
    T = [{'name': n, 'fn': f, 'seed': seed, 'timeout': 60, 'tier': tier} for n, f in
         (('positive', 'run_positive'), ('increasing', 'run_increasing'), ('smooth at the switch', 'run_smooth'), ('inverse tau->T->tau', 'run_inv1'), ('inverse T->tau->T', 'run_inv2'),
          ('backward rule', 'run_backward'), ('identity map', 'run_identity'), ('fp toTime', 'run_fp_totime'), ('fp toTau', 'run_fp_totau'), ('fp backward', 'run_fp_backward'))]
    if tier == 'thorough':
        T.append({'name': 'fp round trip (attempt)', 'fn': 'run_fp_roundtrip', 'seed': seed, 'timeout': 60, 'tier': tier})
    return T


def explore(s, assume, name, timeout):
    ex = P.Explorer(TU, s, assume, max_paths=64, timeout=20, nonlinear=True, budget_s=200)
    out = []
    for (dec, g, enc0, sh) in ex.paths():
        sc = O.Scenario(ID, '%s path%s' % (name, ''.join(str(int(x)) for x in dec)), TU, s, decisions=dec, timeout=timeout, dag=g, shadow_override=sh)
        sc.assume += assume(sc.enc)
        out.append(sc)
    fin = O.Scenario(ID, name + ' (exploration)', TU, s, timeout=timeout)
    if ex.complete:
        fin.check('all branch combinations explored (infeasible ones refuted by the solver)', True)
    else:
        fin._rec('all branch combinations explored', 'explore', 'unknown', detail='runs=%d unknown=%d' % (ex.runs, ex.unknown))
    fin.queries += ex.queries
    return out, fin


@C.run_scenarios
def run_positive(t):
    s = D.Script()
    s.var('tau', 0.4)
    s.add('tm.toTime quad tau T')
    scs, fin = explore(s, lambda E: [], t['name'], t['timeout'])
    for sc in scs:
        E = sc.enc
        sc.real_true('toTime(tau) > 0', E.lt_formula(R.VZERO, E.out('T')))
        sc.side_conditions('toTime')
    fin.check('both branches reached (vacuity guard)', len(scs) >= 2, '%d paths' % len(scs))
    return scs + [fin]


@C.run_scenarios
def run_increasing(t):
    s = D.Script()
    s.var('a', -0.3)
    s.var('b', 0.6)
    s.add('tm.toTime quad a Ta')
    s.add('tm.toTime quad b Tb')
    assume = lambda E: [E.var('a') < E.var('b')]
    scs, fin = explore(s, assume, t['name'], t['timeout'])
    for sc in scs:
        E = sc.enc
        sc.real_true('a < b  =>  toTime(a) < toTime(b)', E.lt_formula(E.out('Ta'), E.out('Tb')))
    fin.check('at least the three branch combinations neg/neg, neg/pos, pos/pos explored (vacuity guard)', len(scs) >= 3, '%d paths' % len(scs))
    return scs + [fin]


@C.run_scenarios
def run_smooth(t):
    s = D.Script()
    s.var('tau', 0.4)
    s.add('tm.toTime quad tau T')
    scs, fin = explore(s, lambda E: [], t['name'], t['timeout'])
    vals = []
    for sc in scs:
        E = sc.enc
        v0 = sc.eval_val(E.out('T'), {'tau': Fraction(0)})
        d0 = sc.eval_val(E.dwrt(E.out('T'), 'tau'), {'tau': Fraction(0)})
        vals.append((sc, v0, d0))
    # each branch formula, continued to tau = 0, must give the value and slope of the OTHER branch there
    for i, (sc, v0, d0) in enumerate(vals):
        for j, (sc2, v1, d1) in enumerate(vals):
            if i == j:
                continue
            E = sc.enc
            sc.post_subst = {'tau': Fraction(0)}
            sc.real_eq('one-sided value at the switch == value of the other branch there (%s)' % v1, 'T', R.Val(v1), with_path=False)
            sc.real_eq('one-sided derivative at the switch == derivative of the other branch there (%s)' % d1, None, R.Val(d1), with_path=False, lhs_val=E.dwrt(E.out('T'), 'tau'))
            sc.post_subst = {}
    fin.check('both branches reached (vacuity guard)', len(scs) >= 2, '%d paths' % len(scs))
    return scs + [fin]


@C.run_scenarios
def run_inv1(t):
    s = D.Script()
    s.var('tau', 0.4)
    s.add('tm.toTime quad tau T')
    s.add('bind TT T')
    s.add('tm.toTau quad TT U')
    scs, fin = explore(s, lambda E: [], t['name'], t['timeout'])
    for sc in scs:
        E = sc.enc
        sc.real_eq('toTau(toTime(tau)) == tau', 'U', E.node(sc.dag.varid['tau']))
        for j, y in E.sqrt_nodes.items():
            arg = E.node(sc.dag.nodes[j][1])
            # radicand >= 0 on this path (without assuming the sqrt variable exists)
            fs = [f for f in sc.path_formulas()] + [z3.Not(E.le_formula(R.VZERO, arg))]
            r = R.solve('radicand', fs, t['timeout'])
            sc.queries += 1
            sc._rec('radicand of the square root in toTau is non-negative on this path', 'real', r.status if r.status != 'sat' else 'sat', r.t, h=hash(('rad', j)), confirmed=False, model=r.model)
    fin.check('at least two feasible branch combinations explored (vacuity guard)', len(scs) >= 2, '%d paths' % len(scs))
    return scs + [fin]


@C.run_scenarios
def run_inv2(t):
    s = D.Script()
    s.var('T', 1.7)
    s.add('tm.toTau quad T U')
    s.add('bind UU U')
    s.add('tm.toTime quad UU V')
    assume = lambda E: [E.var('T') > 0]
    scs, fin = explore(s, assume, t['name'], t['timeout'])
    for sc in scs:
        E = sc.enc
        sc.real_eq('toTime(toTau(T)) == T', 'V', E.node(sc.dag.varid['T']))
    fin.check('at least two feasible branch combinations explored (vacuity guard)', len(scs) >= 2, '%d paths' % len(scs))
    return scs + [fin]


@C.run_scenarios
def run_backward(t):
    s = D.Script()
    s.var('tau', 0.4)
    s.var('g', 0.7)
    s.var('Tfree', 1.3)
    s.add('tm.toTime quad tau T')
    s.add('bind TT T')
    s.add('tm.backward quad tau TT g B')
    s.add('tm.backward quad tau Tfree g B2')
    scs, fin = explore(s, lambda E: [], t['name'], t['timeout'])
    for sc in scs:
        E = sc.enc
        dT = E.dwrt(E.out('T'), 'tau')
        sc.real_eq('backward(tau, T, g) == g * d toTime/d tau', 'B', E.mul(E.node(sc.dag.varid['g']), dT))
        sc.real_eq('backward is linear in the incoming gradient and does not depend on a stale T argument', 'B2', E.mul(E.node(sc.dag.varid['g']), dT))
    fin.check('at least two feasible branch combinations explored (vacuity guard)', len(scs) >= 2, '%d paths' % len(scs))
    return scs + [fin]


@C.run_scenarios
def run_identity(t):
    s = D.Script()
    s.var('x', 0.4)
    s.var('g', 0.7)
    s.var('T', 1.1)
    s.add('tm.toTime ident x A')
    s.add('tm.toTau ident x B')
    s.add('tm.backward ident x T g Cc')
    sc = O.Scenario(ID, t['name'], TU, s, timeout=t['timeout'])
    sc.uf_node_eq('identity toTime returns its argument', 'A', sc.dag.varid['x'])
    sc.uf_node_eq('identity toTau returns its argument', 'B', sc.dag.varid['x'])
    sc.uf_node_eq('identity backward returns the incoming gradient', 'Cc', sc.dag.varid['g'])
    sc.check('identity map has no data-dependent branch', len(sc.dag.path) == 0, str(sc.dag.path))
    return [sc]


def fp_paths(s, var, lo, hi):
    """the recorded paths of a one-variable script (both outcomes of each fork, by shadow choice)"""
    runs = []
    seen = set()
    work = [[]]
    while work:
        dec = work.pop()
        g = D.run(TU, s.text(dec))
        key = tuple(f[3] for f in g.path)
        if key in seen:
            continue
        seen.add(key)
        runs.append((list(key), g))
        for j in range(len(dec), len(g.path)):
            work.append(list(key[:j]) + [1 - key[j]])
    return runs


def fp_check(sc, g, dec, name, roots, ranges, asserts, cap, replay_cond=None):
    """one CBMC obligation on a recorded path + its reachability witness"""
    ctext = FP.emit_c(g, roots, ranges, g.path, asserts)
    st, detail, dt = FP.cbmc(ctext, cap, FP.BACKENDS)
    sc.queries += 1
    sc.solver_time += dt
    if st == 'success':
        sc._rec(name, 'fp', 'unsat', dt, h=hash(ctext), backend=detail)
    elif st == 'unknown':
        sc._rec(name, 'fp', 'unknown', dt, detail=str(detail))
    else:
        vals = detail['values']
        pt = {}
        for nm, nid in g.varid.items():
            v = vals.get('n%d' % nid)
            if v is not None:
                try:
                    pt[nm] = float(v.rstrip('f'))
                except ValueError:
                    pass
        rec = {'confirmed': False, 'point': pt, 'note': 'cbmc counterexample ' + str(detail['failed'])}
        try:
            nd = D.run(TU, sc.script.text(None, pt), native=True)
            rec['native_outs'] = dict(list(nd.outv.items())[:8])
            ok = True
            if replay_cond:
                got = nd.outv.get(replay_cond['out'])
                ok = not eval(replay_cond['cond'], {'x': got, 'isnan': lambda v: v != v, 'inf': float('inf')})
            rec['confirmed'] = ok
            if ok:
                rec['replay'] = sc.write_replay(name, {'kind': 'fp', 'shadows': pt, 'note': 'IEEE-754 counterexample found by CBMC: ' + name, 'expect_native': replay_cond})
        except Exception as e:
            rec['note'] += ' / native run failed: %s' % e
        sc._rec(name, 'fp', 'sat', dt, **rec)


@C.run_scenarios
def run_fp_totime(t):
    cap = 120 if t['tier'] == 'quick' else 900
    s = D.Script()
    s.var('tau', 0.4)
    s.add('tm.toTime quad tau T')
    out = []
    runs = fp_paths(s, 'tau', -1e6, 1e6)
    for dec, g in runs:
        sc = O.Scenario(ID, '%s path%s' % (t['name'], ''.join(map(str, dec))), TU, s, decisions=dec, timeout=t['timeout'], dag=g)
        T = g.outs['T']
        rng = {'tau': (-1e6, 1e6)}
        wt = FP.emit_c(g, [T], rng, g.path, [], witness=True)
        st, detail, dt = FP.cbmc(wt, 60)
        sc._rec('reachability witness: the path is feasible in binary64', 'fp', 'unsat' if st == 'failed' else 'unknown', dt, h=hash(wt), detail=None if st == 'failed' else 'witness assert(0) not violated: ' + str(detail))
        fp_check(sc, g, dec, 'binary64: toTime(tau) is finite and > 0 for |tau| <= 1e6', [T], rng, [('finite and positive', '(n%d - n%d == 0.0) && n%d > 0.0' % (T, T, T))], cap,
                 {'out': 'T', 'cond': 'x == x and x != inf and x > 0'})
        pos = all(f[3] == 1 for f in g.path if f[0] == 'lt')
        # cross-branch order in doubles: the positive branch never returns less than 1, the other never more than 1
        if any(f[0] == 'lt' for f in g.path):
            first = [f for f in g.path if f[0] == 'lt'][0]
            if first[3] == 1:
                fp_check(sc, g, dec, 'binary64: toTime(tau) >= 1 on the tau > 0 branch', [T], rng, [('>= 1', 'n%d >= 1.0' % T)], cap, {'out': 'T', 'cond': 'x >= 1'})
            else:
                fp_check(sc, g, dec, 'binary64: toTime(tau) <= 1 on the tau <= 0 branch', [T], rng, [('<= 1', 'n%d <= 1.0' % T)], cap, {'out': 'T', 'cond': 'x <= 1'})
        out.append(sc)
    fin = O.Scenario(ID, t['name'] + ' (paths)', TU, s, timeout=t['timeout'])
    fin.check('both branches recorded', len(runs) >= 2, '%d paths' % len(runs))
    return out + [fin]


@C.run_scenarios
def run_fp_totau(t):
    cap = 120 if t['tier'] == 'quick' else 900
    s = D.Script()
    s.var('T', 1.7)
    s.add('tm.toTau quad T U')
    out = []
    runs = fp_paths(s, 'T', 1e-6, 1e6)
    for dec, g in runs:
        sc = O.Scenario(ID, '%s path%s' % (t['name'], ''.join(map(str, dec))), TU, s, decisions=dec, timeout=t['timeout'], dag=g)
        U = g.outs['U']
        rng = {'T': (1e-6, 1e6)}
        sq = [j for j in g.slice([U]) if g.nodes[j][0] == D.SQRT]
        wt = FP.emit_c(g, [U], rng, g.path, [], witness=True)
        st, detail, dt = FP.cbmc(wt, 60)
        sc._rec('reachability witness: the path is feasible in binary64', 'fp', 'unsat' if st == 'failed' else 'unknown', dt, h=hash(wt), detail=None if st == 'failed' else str(detail))
        for j in sq:
            a = g.nodes[j][1]
            fp_check(sc, g, dec, 'binary64: radicand of toTau is >= 0 for T in [1e-6, 1e6] (result is not NaN)', [U], rng, [('radicand >= 0', 'n%d >= 0.0' % a)], cap, {'out': 'U', 'cond': 'x == x'})
        fp_check(sc, g, dec, 'binary64: toTau(T) is finite for T in [1e-6, 1e6]', [U], rng, [('finite', '(n%d - n%d == 0.0)' % (U, U))], cap, {'out': 'U', 'cond': 'x == x and abs(x) != inf'})
        out.append(sc)
    fin = O.Scenario(ID, t['name'] + ' (paths)', TU, s, timeout=t['timeout'])
    fin.check('both branches recorded', len(runs) >= 2, '%d paths' % len(runs))
    return out + [fin]


@C.run_scenarios
def run_fp_backward(t):
    cap = 120 if t['tier'] == 'quick' else 900
    s = D.Script()
    s.var('tau', 0.4)
    s.var('g', 0.7)
    s.var('T', 1.3)
    s.add('tm.backward quad tau T g B')
    out = []
    runs = fp_paths(s, 'tau', -1e6, 1e6)
    for dec, g in runs:
        sc = O.Scenario(ID, '%s path%s' % (t['name'], ''.join(map(str, dec))), TU, s, decisions=dec, timeout=t['timeout'], dag=g)
        B = g.outs['B']
        rng = {'tau': (-1e6, 1e6), 'g': (-1e6, 1e6), 'T': (1e-6, 1e6)}
        fp_check(sc, g, dec, 'binary64: backward(tau, T, g) is finite for |tau|, |g| <= 1e6', [B], rng, [('finite', '(n%d - n%d == 0.0)' % (B, B))], cap, {'out': 'B', 'cond': 'x == x and abs(x) != inf'})
        gn = g.varid['g']
        fp_check(sc, g, dec, 'binary64: backward keeps the sign of the incoming gradient (the derivative of the map is never negative)', [B], rng,
                 [('sign', '(n%d >= 0.0 && n%d >= 0.0) || (n%d <= 0.0 && n%d <= 0.0)' % (gn, B, gn, B))], cap, {'out': 'B', 'cond': 'x == x'})
        out.append(sc)
    fin = O.Scenario(ID, t['name'] + ' (paths)', TU, s, timeout=t['timeout'])
    fin.check('both branches recorded', len(runs) >= 2, '%d paths' % len(runs))
    return out + [fin]


@C.run_scenarios
def run_fp_roundtrip(t):
    """attempted, not claimed unless a back end finishes: |toTime(toTau(T)) - T| <= 1e-9 T in binary64"""
    s = D.Script()
    s.var('T', 1.7)
    s.add('tm.toTau quad T U')
    s.add('bind UU U')
    s.add('tm.toTime quad UU V')
    out = []
    for dec, g in fp_paths(s, 'T', 1e-3, 1e3):
        sc = O.Scenario(ID, '%s path%s' % (t['name'], ''.join(map(str, dec))), TU, s, decisions=dec, timeout=t['timeout'], dag=g)
        V, Tn = g.outs['V'], g.varid['T']
        rng = {'T': (1e-3, 1e3)}
        wt = FP.emit_c(g, [V], rng, g.path, [], witness=True)
        st, detail, dt = FP.cbmc(wt, 120)
        if st != 'failed':
            continue   # infeasible branch combination in binary64 (or no verdict): nothing to claim on it
        fp_check(sc, g, dec, 'binary64 (attempt): |toTime(toTau(T)) - T| <= 1e-9 T for T in [1e-3, 1e3]', [V], rng,
                 [('round trip', 'fabs(n%d - n%d) <= 1e-9 * n%d' % (V, Tn, Tn))], 600, {'out': 'V', 'cond': 'x == x'})
        out.append(sc)
    return out


def validation(tier, seed):
    v = []
    for tau in (0.4, -0.7, 0.0, 3.0):
        s = D.Script()
        s.var('tau', tau)
        s.var('g', 0.3)
        s.add('tm.toTime quad tau T')
        s.add('bind TT T')
        s.add('tm.toTau quad TT U')
        s.add('tm.backward quad tau TT g B')
        v.append((TU, s, None))
    return v
