"""C04 - reported energy == integral of the squared s-th derivative of the published trajectory (cut at the
published coefficients and durations: holds for EVERY coefficient set and every positive duration)."""
from fractions import Fraction
import z3
from enc import build, dag as D, real as R, ob as O
from . import common as C

ID = 'C04'
LEVEL = C.LEVEL
EXPLANATION = C.EXPLANATION
DURATION_SCALES_NOTE = 'duration shadows 5e-4, 1e-2, 300 select the recorded path in extra tasks (the obligation itself is for every positive duration)'
ASSUMPTIONS = C.ASSUMPTIONS + ['cut points: the published coefficients (getTrajectory().getCoefficients()) and durations (getTimeSegments()) are replaced by free variables, so the identity is proved for every coefficient set, not only those the solver produces']
FUNCTIONS = ['CubicSplineND/QuinticSplineND/SepticSplineND<DIM>::getEnergy', 'constructors (both routes) + update', 'getTrajectory().getCoefficients()', 'getTimeSegments()']
OUTSIDE = ['rounding ("non-negative up to rounding" is proved as exact non-negativity of the closed form for N=1, DIM<=2)', 'N>4 (segments contribute independent identical terms)']


def caps(tier):
    return {'N': (1, 2, 3) if tier == 'quick' else (1, 2, 3, 4), 'dims': (1, 2, 3) if tier == 'quick' else (1, 2, 3, 4, 10)}


def bounds(tier):
    c = caps(tier)
    return {'orders': [3, 5, 7], 'N': list(c['N']), 'DIM': list(c['dims']), 'durations': 'all symbolic, > 0', 'coefficients': 'all symbolic (cut)',
            'routes': 'duration constructor, time-point constructor, update after a smaller/larger problem, default-constructed object'}


def tus(tier):
    return [build.spline_tu(o, d) for o in C.ORDERS for d in caps(tier)['dims']]


def tasks(tier, seed):
    c = caps(tier)
    to = 60 if tier == 'quick' else 600
    T = []
    for o in C.ORDERS:
        for d in c['dims']:
            for N in c['N']:
                if d == 10 and N > 2:
                    continue
                for route in ('dur', 'tp', 'upd', 'updtp'):
                    if route != 'dur' and (d > 2 or N > 2):
                        continue
                    T.append({'name': 'energy o%d d%d N%d %s' % (o, d, N, route), 'order': o, 'dim': d, 'N': N, 'route': route, 'seed': seed, 'timeout': to})
        # duration scales far from 1: the recorded path is the one these shadows select (a guard such as "T below some tolerance -> skip" shows up here)
        for sh in (5e-4, 1e-2, 300.0):
            T.append({'name': 'energy o%d d2 N2 dur durations~%g' % (o, sh), 'order': o, 'dim': 2, 'N': 2, 'route': 'dur', 'hshadow': sh, 'seed': seed, 'timeout': to})
        T.append({'name': 'nonneg o%d' % o, 'fn': 'run_nonneg', 'order': o, 'seed': seed, 'timeout': to})
        T.append({'name': 'default o%d' % o, 'fn': 'run_default', 'order': o, 'seed': seed, 'timeout': to})
    return T


def build_script(o, d, N, route, seed):
    rng = C.rng_for(seed, 'C04', o, d, N, route)
    s = D.Script()
    pr = C.Problem(s, '', o, d, N, rng)
    if route == 'dur':
        pr.new(s, 'S')
    elif route == 'tp':
        q, acc = [], rng.uniform(-1, 1)
        for i in range(N + 1):
            q.append(s.var('q%d' % i, round(acc, 3)))
            acc += rng.uniform(0.6, 1.7)
        s.add('sp.new S tp', N + 1, *q, N + 1, *pr.flatP(), pr.bcname)
    else:
        pr0 = C.Problem(s, 'z', o, d, N + 1, rng)
        pr0.new(s, 'S')
        s.add('sp.energy S E0')
        if route == 'upd':
            pr.update(s, 'S')
        else:
            q, acc = [], rng.uniform(-1, 1)
            for i in range(N + 1):
                q.append(s.var('q%d' % i, round(acc, 3)))
                acc += rng.uniform(0.6, 1.7)
            s.add('sp.update S tp', N + 1, *q, N + 1, *pr.flatP(), pr.bcname)
        pr.prev = pr0
    s.add('sp.coeffs S c')
    s.add('sp.meta S m')
    s.add('sp.energy S E')
    return s, pr


def energy_spec(E, o, d, N, cval, Tval):
    sd, nc = C.SD[o], C.NC[o]
    tot = R.VZERO
    for i in range(N):
        T = Tval[i]
        pw = [R.VONE]
        for _ in range(2 * nc):
            pw.append(E.mul(pw[-1], T))
        for dd in range(d):
            for a in range(sd, nc):
                fa = 1
                for j in range(sd):
                    fa *= (a - j)
                for b in range(sd, nc):
                    fb = 1
                    for j in range(sd):
                        fb *= (b - j)
                    e = a + b - 2 * sd + 1
                    term = E.mul(E.mul(cval[i * nc + a][dd], cval[i * nc + b][dd]), pw[e])
                    tot = E.add(tot, E.scale(term, Fraction(fa * fb, e)))
    return tot


def cut_scenario(t, s, pr, o, d, N):
    so = None
    if t.get('hshadow'):
        so = {h: t['hshadow'] * (1 + 0.3 * i) for i, h in enumerate(pr.h)}
    g0 = D.run(build.spline_tu(o, d), s.text(None, so))
    cuts = {}
    for r in range(N * C.NC[o]):
        for dd in range(d):
            cuts[g0.outs['c.%d.%d' % (r, dd)]] = 'cc_%d_%d' % (r, dd)
    for i in range(N):
        cuts[g0.outs['m.seg.%d' % i]] = 'T%d' % i
    sc = O.Scenario(ID, t['name'], build.spline_tu(o, d), s, timeout=t['timeout'], enc_kwargs={'cuts': cuts}, dag=g0, shadow_override=so)
    E = sc.enc
    for i in range(N):
        sc.assume.append(E.var('T%d' % i) > 0)
    if getattr(pr, 'prev', None):
        sc.positive(pr.prev.h)
    cval = [[E.out('c.%d.%d' % (r, dd)) for dd in range(d)] for r in range(N * C.NC[o])]
    Tval = [E.out('m.seg.%d' % i) for i in range(N)]
    return sc, cval, Tval


@C.run_scenarios
def run_task(t):
    o, d, N = t['order'], t['dim'], t['N']
    s, pr = build_script(o, d, N, t['route'], t['seed'])
    sc, cval, Tval = cut_scenario(t, s, pr, o, d, N)
    sc.check('cut points are distinct nodes', len(sc.enc.cuts) == N * C.NC[o] * d + N, 'two published coefficients share a DAG node')
    sc.path_forced('skip-branch (T <= 0) infeasible for positive durations')
    sc.real_eq('getEnergy == closed-form integral of |p^(s)|^2 over every segment and dimension', 'E', energy_spec(sc.enc, o, d, N, cval, Tval), lhs_val=None)
    return [sc]


@C.run_scenarios
def run_nonneg(t):
    """corollary: the closed form is >= 0 for every coefficient set (N=1, DIM 1 and 2)."""
    o = t['order']
    out = []
    for d in (1, 2):
        s, pr = build_script(o, d, 1, 'dur', t['seed'])
        tt = dict(t)
        tt['name'] = '%s d%d' % (t['name'], d)
        sc, cval, Tval = cut_scenario(tt, s, pr, o, d, 1)
        E = sc.enc
        ev = E.out('E')
        f = E.lt_formula(ev, R.VZERO)
        r = R.solve('nonneg', sc.base(True) + [f], t['timeout'])
        sc.queries += 1
        sc.solver_time += r.t
        sc._rec('getEnergy >= 0 for every coefficient set and T > 0', 'real', r.status if r.status != 'sat' else 'sat', r.t, h=f.hash(),
                confirmed=False, model=r.model, detail=r.detail)
        out.append(sc)
    return out


@C.run_scenarios
def run_default(t):
    o = t['order']
    s = D.Script()
    s.add('sp.default S')
    s.add('sp.energy S E')
    sc = O.Scenario(ID, t['name'], build.spline_tu(o, 1), s, timeout=t['timeout'])
    sc.real_eq('default-constructed spline reports zero energy', 'E', R.VZERO)
    return [sc]


def validation(tier, seed):
    v = []
    for o in C.ORDERS:
        s, pr = build_script(o, 3, 3, 'dur', seed + 3)
        v.append((build.spline_tu(o, 3), s, None))
    return v
