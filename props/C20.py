"""C20 - generateTimeSequence contract, batch == pointwise, trajectory length == left Riemann sum, zero/constant factories."""
from fractions import Fraction
import z3
from enc import build, dag as D, real as R, ob as O, paths as P
from . import common as C

ID = 'C20'
LEVEL = C.LEVEL
EXPLANATION = C.EXPLANATION + '; the step count floor((end-start)/dt) is an integer-valued fork point: one path per value 0..6, each with the solver-checked path condition n <= (end-start)/dt < n+1'
ASSUMPTIONS = ['start <= end, dt > 0, all values finite reals', 'step count n = floor((end-start)/dt) in 0..6 (int overflow of the step count for (end-start)/dt >= 2^31 is outside the bound)',
               'exact real arithmetic: near-divisible steps where the rounded quotient floors differently from the real quotient are outside the claim (IEEE level not established, DESIGN s5/C20)',
               'the arc-length error bound (step x integral of |a|) is the textbook consequence of the Riemann-sum identity and is not encoded']
FUNCTIONS = ['PPolyND::generateTimeSequence(start,end,dt)', 'generateTimeSequence(dt)', 'getTrajectoryLength(start,end,dt)', 'getTrajectoryLength(dt)', 'evaluate(vector,k)', 'evaluate(t,k)',
             'PPolyND::zero', 'PPolyND::constant']
OUTSIDE = ['n > 6', 'IEEE rounding of (end-start)/dt and of start+i*dt', 'start > end / dt <= 0 / NaN']
NMAX = 6
HARD_TIMEOUT = {'quick': 900, 'thorough': 3000}


def bounds(tier):
    return {'step count n': '0..%d' % NMAX, 'interval': 'symbolic start <= end (zero length and sub-ranges included), symbolic dt > 0',
            'trajectories': 'PPolyND<1,dyn> and <2,dyn>, 1..3 segments (so that one step can cross two breakpoints), 4 coefficients, symbolic', 'length / batch parts': 'n <= 3 (n <= 2 for 3 segments)',
            'factories': '|breakpoints| in {2,3,5}, coefficient counts {default,1,4,9}, derivative orders 0..2 and beyond'}


def tus(tier):
    return [build.ppoly_tu(1, -1), build.ppoly_tu(2, -1)]


def tasks(tier, seed):
    to = 60 if tier == 'quick' else 300
    T = [{'name': 'timeseq explicit', 'fn': 'run_seq', 'route': 'explicit', 'seed': seed, 'timeout': to},
         {'name': 'timeseq whole', 'fn': 'run_seq', 'route': 'whole', 'seed': seed, 'timeout': to}]
    for dim in (1, 2):
        for N in (1, 2, 3):
            if N == 3 and dim == 2 and tier == 'quick':
                continue
            T.append({'name': 'length d%d N%d' % (dim, N), 'fn': 'run_len', 'dim': dim, 'N': N, 'nmax': 3 if N < 3 else 2, 'seed': seed, 'timeout': to})
        for N in (1, 2):
            T.append({'name': 'batch d%d N%d' % (dim, N), 'fn': 'run_batch', 'dim': dim, 'N': N, 'seed': seed, 'timeout': to})
        for nb in (2, 3, 5):
            for m in (-1, 1, 4, 9):
                T.append({'name': 'factory d%d bp%d m%d' % (dim, nb, m), 'fn': 'run_factory', 'dim': dim, 'nb': nb, 'm': m, 'seed': seed, 'timeout': to})
    return T


def pp_script(dim, N, nc, rng):
    s = D.Script()
    b, acc = [], rng.uniform(-1, 0)
    for i in range(N + 1):
        b.append(s.var('b%d' % i, round(acc, 3)))
        acc += rng.uniform(0.8, 1.5)
    c = [s.var('c%d_%d' % (r, d), round(rng.uniform(-2, 2), 3)) for r in range(N * nc) for d in range(dim)]
    s.add('pp.new P', N + 1, *b, N * nc, *c, nc)
    return s, b, c


def seq_assume(N, explicit=True):
    def assume(enc):
        fs = [enc.var('b%d' % i) < enc.var('b%d' % (i + 1)) for i in range(N)]
        fs.append(enc.var('dt') > 0)
        if explicit:
            fs.append(enc.var('ta') <= enc.var('tb'))
        return fs
    return assume


def check_sequence(sc, E, g, pre, start, end, dtv, n_path, timeout):
    """all clauses of the sequence contract on one path.  start/end/dtv are Vals."""
    n = g.ints[pre + '.n']
    eps = E.const(Fraction(1, 10 ** 6))
    appended = (n == n_path + 2)
    sc.check('sequence length is n+1 or n+2 (n = floor((end-start)/dt) = %d on this path)' % n_path, n in (n_path + 1, n_path + 2), 'length %d' % n)
    base = sc.base(True)

    def holds(name, formula):
        r = R.solve(name, base + [z3.Not(formula)], timeout)
        sc.queries += 1
        sc.solver_time += r.t
        if r.status == 'sat':
            sc._rec(name, 'real', 'sat', r.t, confirmed=True, model=r.model, note='contract clause violated for some interval/step',
                    replay=sc.write_replay(name, {'kind': 'structural', 'note': name + ' fails; model=' + str(r.model)[:400], 'decisions': sc.decisions,
                                                  'shadows': {k: float(v) for k, v in sc.point_from_model(r.model).items()}}))
        else:
            sc._rec(name, 'real', r.status, r.t, h=formula.hash(), detail=r.detail)
    sc.real_eq('first sample == start', pre + '.0', start)
    for i in range(n_path + 1):
        sc.real_eq('sample %d == start + %d*dt' % (i, i), '%s.%d' % (pre, i), E.add(start, E.scale(dtv, Fraction(i))))
    vals = [E.out('%s.%d' % (pre, i)) for i in range(n)]
    for i in range(n - 1):
        holds('strictly increasing: sample %d < sample %d' % (i, i + 1), E.lt_formula(vals[i], vals[i + 1]))
    for i in range(n):
        holds('sample %d <= end + 1e-6' % i, E.le_formula(vals[i], E.add(end, eps)))
    holds('last sample within 1e-6 of end (upper)', E.le_formula(vals[-1], E.add(end, eps)))
    holds('last sample within 1e-6 of end (lower)', E.le_formula(E.add(end, eps, -1), vals[-1]))
    if appended:
        sc.real_eq('appended final sample == end', '%s.%d' % (pre, n - 1), end)
        holds('end appended only when the last step falls short by more than 1e-6', E.lt_formula(E.add(vals[n - 2], eps), end))
    else:
        holds('end not appended only when the last regular sample is within 1e-6', E.le_formula(E.add(end, eps, -1), vals[-1]))


@C.run_scenarios
def run_seq(t):
    rng = C.rng_for(t['seed'], 'C20seq', t['route'])
    N = 2
    s, b, c = pp_script(1, N, 4, rng)
    s.var('dt', 0.45)
    if t['route'] == 'explicit':
        s.var('ta', 0.1)
        s.var('tb', 1.7)
        s.add('pp.tseq P ta tb dt q')
    else:
        s.add('pp.tseq1 P dt q')
        s.add('pp.meta P m')
    tu = build.ppoly_tu(1, -1)
    assume = seq_assume(N, t['route'] == 'explicit')
    ex = P.Explorer(tu, s, assume, max_paths=256, int_choices=range(0, NMAX + 1), timeout=20, nonlinear=True)
    out = []
    seen_n = set()
    for (dec, g, enc0, sh) in ex.paths():
        n_path = [f for f in g.path if f[0] in ('floorint', 'truncint')][0][3]
        if n_path < 0 or n_path > NMAX:
            continue
        seen_n.add((n_path, g.ints['q.n']))
        sc = O.Scenario(ID, '%s n=%d len=%d' % (t['name'], n_path, g.ints['q.n']), tu, s, decisions=dec, timeout=t['timeout'], dag=g, shadow_override=sh)
        sc.assume += assume(sc.enc)
        E = sc.enc
        if t['route'] == 'explicit':
            st, en = E.node(g.varid['ta']), E.node(g.varid['tb'])
        else:
            st, en = E.node(g.varid['b0']), E.node(g.varid['b%d' % N])
            sc.uf_node_eq('trajectory start is the first breakpoint', 'm.start', g.varid['b0'])
            sc.uf_node_eq('trajectory end is the last breakpoint', 'm.end', g.varid['b%d' % N])
        check_sequence(sc, E, g, 'q', st, en, E.node(g.varid['dt']), n_path, t['timeout'])
        out.append(sc)
    fin = O.Scenario(ID, t['name'] + ' (exploration)', tu, s, timeout=t['timeout'])
    if ex.complete:
        fin.check('all feasible paths for n in 0..%d explored' % NMAX, True)
    else:
        fin._rec('all feasible paths explored', 'explore', 'unknown', detail='runs=%d unknown=%d' % (ex.runs, ex.unknown))
    fin.check('every step count 0..%d reached' % NMAX, {x[0] for x in seen_n} == set(range(NMAX + 1)), str(sorted(seen_n)))
    fin.queries += ex.queries
    out.append(fin)
    return out


@C.run_scenarios
def run_len(t):
    """getTrajectoryLength == sum_i |v(t_i)| (t_{i+1} - t_i) over generateTimeSequence (left Riemann sum)."""
    dim, N = t['dim'], t['N']
    rng = C.rng_for(t['seed'], 'C20len', dim, N)
    tu = build.ppoly_tu(dim, -1)
    out = []
    for route in ('explicit', 'whole'):
        s, b, c = pp_script(dim, N, 4, rng)
        s.var('dt', 0.55 if route == 'explicit' else 0.9)
        if route == 'explicit':
            s.var('ta', 0.05)
            s.var('tb', 1.3)
            s.add('pp.len P ta tb dt L')
            s.add('pp.tseq P ta tb dt q')
        else:
            s.add('pp.len1 P dt L')
            s.add('pp.tseq1 P dt q')
        # evaluate the velocity at up to 5 samples; samples that do not exist on a path are skipped when checking
        for i in range(5):
            s.add('bindopt Q%d q.%d' % (i, i))
            s.add('pp.evalopt P Q%d 1 v%d' % (i, i))
            s.add('pp.norm nrm%d' % i, *['v%d.%d' % (i, d) for d in range(dim)])
        assume = seq_assume(N, route == 'explicit')
        nmax = t.get('nmax', 3)
        ex = P.Explorer(tu, s, assume, max_paths=1500, int_choices=range(0, nmax + 1), timeout=20, nonlinear=True, budget_s=400)
        for (dec, g, enc0, sh) in ex.paths():
            n_path = [f for f in g.path if f[0] in ('floorint', 'truncint')][0][3]
            n = g.ints['q.n']
            if n_path < 0 or n_path > nmax or n > 5:
                continue
            sc = O.Scenario(ID, '%s %s n=%d len=%d path#%d' % (t['name'], route, n_path, n, len(out)), tu, s, decisions=dec, timeout=t['timeout'], dag=g, shadow_override=sh,
                            enc_kwargs={'sqrt_opaque': True})
            sc.assume += assume(sc.enc)
            E = sc.enc
            tot = R.VZERO
            for i in range(n - 1):
                # nrm_i = Eigen norm() of the separately evaluated velocity at sample i: the square root is an opaque symbol shared
                # (by node identity) with the one inside getTrajectoryLength when the library evaluates the same speed
                tot = E.add(tot, E.mul(E.out('nrm%d' % i), E.add(E.out('q.%d' % (i + 1)), E.out('q.%d' % i), -1)))
            sc.real_eq('length == left Riemann sum of speed over the generated sequence (%d samples)' % n, 'L', tot)
            out.append(sc)
        fin = O.Scenario(ID, '%s %s (exploration)' % (t['name'], route), tu, s, timeout=t['timeout'])
        if ex.complete:
            fin.check('all feasible paths explored', True)
        else:
            fin._rec('all feasible paths explored', 'explore', 'unknown', detail='runs=%d unknown=%d' % (ex.runs, ex.unknown))
        fin.queries += ex.queries
        out.append(fin)
    return out


@C.run_scenarios
def run_batch(t):
    dim, N = t['dim'], t['N']
    rng = C.rng_for(t['seed'], 'C20b', dim, N)
    tu = build.ppoly_tu(dim, -1)
    s, b, c = pp_script(dim, N, 4, rng)
    s.var('dt', 0.6)
    s.var('ta', 0.05)
    s.var('tb', 1.4)
    s.add('pp.tseq P ta tb dt q')
    for i in range(5):
        s.add('bindopt Q%d q.%d' % (i, i))
    for k in (0, 1, 5):
        s.add('pp.batchseq P', k, 'B%d' % k, 'q')
        for i in range(5):
            s.add('pp.evalopt P Q%d %d p%d_%d' % (i, k, k, i))
    assume = seq_assume(N, True)
    ex = P.Explorer(tu, s, assume, max_paths=400, int_choices=range(0, 4), timeout=20, nonlinear=True, budget_s=240)
    out = []
    for (dec, g, enc0, sh) in ex.paths():
        n = g.ints['q.n']
        if n > 5:
            continue
        sc = O.Scenario(ID, '%s len=%d path#%d' % (t['name'], n, len(out)), tu, s, decisions=dec, timeout=t['timeout'], dag=g, shadow_override=sh)
        for k in (0, 1, 5):
            sc.int_eq('batch size == sequence length (order %d)' % k, 'B%d.n' % k, n)
            for i in range(min(n, g.ints.get('B%d.n' % k, 0))):
                for d in range(dim):
                    sc.uf_eq('batch[%d] order %d [%d] == pointwise' % (i, k, d), 'B%d.%d.%d' % (k, i, d), 'p%d_%d.%d' % (k, i, d))
                    if k == 5:
                        sc.check('batch[%d] order 5 (above the degree 3) is zero [%d]' % (i, d), g.nodes[g.outs['B5.%d.%d' % (i, d)]] == [0, '0x0p+0'], str(g.nodes[g.outs['B5.%d.%d' % (i, d)]]))
        out.append(sc)
    fin = O.Scenario(ID, t['name'] + ' (exploration)', tu, s, timeout=t['timeout'])
    if ex.complete:
        fin.check('all feasible paths explored', True)
    else:
        fin._rec('all feasible paths explored', 'explore', 'unknown', detail='runs=%d unknown=%d' % (ex.runs, ex.unknown))
    fin.queries += ex.queries
    out.append(fin)
    return out


@C.run_scenarios
def run_factory(t):
    dim, nb, m = t['dim'], t['nb'], t['m']
    rng = C.rng_for(t['seed'], 'C20f', dim, nb, m)
    tu = build.ppoly_tu(dim, -1)
    s = D.Script()
    b, acc = [], rng.uniform(-1, 0)
    for i in range(nb):
        b.append(s.var('b%d' % i, round(acc, 3)))
        acc += rng.uniform(0.8, 1.5)
    v = [s.var('v%d' % d, round(rng.uniform(-2, 2), 3)) for d in range(dim)]
    s.var('t', 0.4)
    s.add('pp.zero Z', nb, *b, m)
    s.add('pp.constant K', nb, *b, *v)
    s.add('pp.meta Z mz')
    s.add('pp.meta K mk')
    mm = 1 if m < 0 else m
    ks = sorted({0, 1, 2, mm, mm + 1})
    for k in ks:
        s.add('pp.eval Z t', k, 'z%d' % k)
        s.add('pp.eval K t', k, 'k%d' % k)

    def assume(enc):
        return [enc.var('b%d' % i) < enc.var('b%d' % (i + 1)) for i in range(nb - 1)]
    ex = P.Explorer(tu, s, assume, max_paths=256, timeout=20)
    out = []
    for (dec, g, enc0, sh) in ex.paths():
        sc = O.Scenario(ID, '%s path#%d' % (t['name'], len(out)), tu, s, decisions=dec, timeout=t['timeout'], dag=g, shadow_override=sh)
        sc.assume += assume(sc.enc)
        E = sc.enc
        sc.int_eq('zero(): initialised', 'mz.init', 1)
        sc.int_eq('zero(): segments == breakpoints-1', 'mz.nseg', nb - 1)
        sc.int_eq('zero(): coefficient count', 'mz.ncoef', mm)
        sc.int_eq('constant(): initialised', 'mk.init', 1)
        sc.int_eq('constant(): segments == breakpoints-1', 'mk.nseg', nb - 1)
        sc.int_eq('constant(): one coefficient', 'mk.ncoef', 1)
        for i in range(nb):
            sc.uf_node_eq('zero(): breakpoint %d as given' % i, 'mz.bp.%d' % i, g.varid['b%d' % i])
            sc.uf_node_eq('constant(): breakpoint %d as given' % i, 'mk.bp.%d' % i, g.varid['b%d' % i])
        for k in ks:
            for d in range(dim):
                sc.real_eq('zero().evaluate(t,%d)[%d] == 0' % (k, d), 'z%d.%d' % (k, d), R.VZERO)
                if k == 0:
                    sc.real_eq('constant().evaluate(t,0)[%d] == the constant' % d, 'k0.%d' % d, E.node(g.varid['v%d' % d]))
                else:
                    sc.real_eq('constant().evaluate(t,%d)[%d] == 0' % (k, d), 'k%d.%d' % (k, d), R.VZERO)
        out.append(sc)
    fin = O.Scenario(ID, t['name'] + ' (exploration)', tu, s, timeout=t['timeout'])
    if ex.complete:
        fin.check('all feasible paths explored', True)
    else:
        fin._rec('all feasible paths explored', 'explore', 'unknown', detail='runs=%d unknown=%d' % (ex.runs, ex.unknown))
    fin.queries += ex.queries
    out.append(fin)
    return out


def validation(tier, seed):
    rng = C.rng_for(seed, 'C20v')
    s, b, c = pp_script(2, 2, 4, rng)
    s.var('dt', 0.3)
    s.add('pp.tseq1 P dt q')
    s.add('pp.len1 P dt L')
    s.add('pp.len0 P L0')
    return [(build.ppoly_tu(2, -1), s, None)]
