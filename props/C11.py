"""C11 - lazy derivative caches and copies never serve stale data (PPolyND and the trajectory exposed by splines)."""
import itertools
from fractions import Fraction
import z3
from enc import build, dag as D, real as R, ob as O, paths as P
from . import common as C

ID = 'C11'
LEVEL = C.LEVEL
EXPLANATION = C.EXPLANATION + '; every update uses fresh symbolic variables, so an evaluation that still depends on an older update (stale cache) or on POISON (uninitialised buffer) is a different DAG node than the fresh object\'s'
ASSUMPTIONS = ['operation sequences up to length 3 over {evaluate at order k, update same shape, update other segment count, update other coefficient count (crossing 8), update to a second other coefficient count (both above 8 for the dynamic types), rejected update, copy, assign / move-assign over a warm object, self-assignment + destroyed copy, derivative()} enumerated exhaustively; data symbolic',
               'data-dependent branches (none in the unchanged code) are explored by the path explorer', 'UF = bit-identity on Eigen scalar paths']
FUNCTIONS = ['PPolyND::update/initializeInternal', 'invalidateDerivativeCaches', 'ensureDerivativeCoefficients/buildDerivativeCoefficients', 'ensureDerivativeFactorTable/buildDynamicDerivativeFactorTable',
             'copy constructor / copy assignment (implicit)', 'derivative()', 'Segment::evaluate', 'evaluate(t,k)', 'Spline::update -> initializePPoly -> getTrajectory()']
OUTSIDE = ['sequences longer than 3 (4 for the dynamic 2-D type in the thorough tier)', 'coefficient counts other than {4,9,12} / {4,5,6} and segment counts other than {1,2,3}']
HARD_TIMEOUT = {'quick': 900, 'thorough': 3000}

TYPES = {'2dyn': (2, -1), '3f6': (3, 6), '1f12': (1, 12)}
# shapes (segments, coefficients) per type: base, same, other segment count, other coefficient count
# shapes (segments, coefficients) per type: base, same, other segment count, other coefficient count, a second other coefficient count
# (so that sequences move between two counts above the static-table limit 8 in both directions: 4->12->9, 9->12->9, 12->9)
SHAPES = {'2dyn': [(2, 4), (2, 4), (3, 4), (2, 9), (2, 12)], '3f6': [(2, 6), (2, 6), (1, 6), (2, 4), (3, 5)], '1f12': [(2, 9), (2, 9), (3, 9), (2, 4), (2, 12)]}
OPS = ['E0', 'E1', 'E2', 'Us', 'Ui', 'Ug', 'Uc', 'Ud', 'Ub', 'CP', 'MC', 'AS', 'MV', 'DV', 'EG', 'SA']


def bounds(tier):
    return {'types': {k: list(v) for k, v in TYPES.items()}, 'shapes': SHAPES, 'alphabet': OPS, 'max sequence length': '4 (2dyn), 3 (others)' if tier == 'thorough' else '3 (2dyn), 2 (others)',
            'spline objects': 'construct, evaluate, update (same N / other N), evaluate, for orders 3/5/7 DIM 2'}


def tus(tier):
    return [build.ppoly_tu(*TYPES[ty]) for ty in TYPES] + [build.spline_tu(o, 2) for o in C.ORDERS]


def tasks(tier, seed):
    T = []
    to = 60
    for ty in TYPES:
        L = 3 if (ty == '2dyn' or tier == 'thorough') else 2
        if tier == 'thorough' and ty == '2dyn':
            L = 4
        seqs = []
        for n in range(1, L + 1):
            seqs += list(itertools.product(OPS, repeat=n))
        # chunk the sequences into tasks
        chunk = 60
        for i in range(0, len(seqs), chunk):
            T.append({'name': 'seq %s #%d' % (ty, i // chunk), 'ty': ty, 'seqs': [list(x) for x in seqs[i:i + chunk]], 'seed': seed, 'timeout': to})
    for o in C.ORDERS:
        T.append({'name': 'spline-trajectory o%d' % o, 'fn': 'run_spline', 'order': o, 'seed': seed, 'timeout': to})
    return T


class Gen:
    """writes a script for one operation sequence and remembers, for each live object, which data it must reflect"""

    def __init__(self, ty, rng):
        self.ty, self.rng = ty, rng
        self.dim = TYPES[ty][0]
        self.s = D.Script()
        self.nupd = 0
        self.state = {}      # object name -> data id (or None = uninitialised)
        self.data = {}       # data id -> (N, nc, bnames, cnames)
        self.ncopy = 0

    def fresh_data(self, N, nc):
        u = self.nupd
        self.nupd += 1
        acc = self.rng.uniform(-1, 1)
        b = []
        for i in range(N + 1):
            b.append(self.s.var('u%db%d' % (u, i), round(acc, 3)))
            acc += self.rng.uniform(0.5, 1.5)
        c = [self.s.var('u%dc%d_%d' % (u, r, d), round(self.rng.uniform(-2, 2), 3)) for r in range(N * nc) for d in range(self.dim)]
        self.data[u] = (N, nc, b, c)
        return u

    def emit_update(self, cmd, obj, u):
        N, nc, b, c = self.data[u]
        self.s.add(cmd, obj, N + 1, *b, N * nc, *c, nc)

    def op(self, o):
        s, sh = self.s, SHAPES[self.ty]
        if o in ('E0', 'E1', 'E2'):
            k = int(o[1])
            cur = self.state['P']
            if cur is not None:
                N = self.data[cur][0]
                for i in range(N):
                    s.add('pp.seg P idx', i, 'tl', k, 'junk%d' % len(s.lines))
        elif o == 'EG':
            if self.state['P'] is not None:
                s.add('pp.eval P tg 1 junk%d' % len(s.lines))
        elif o in ('Us', 'Ug', 'Uc', 'Ud'):
            N, nc = sh[{'Us': 1, 'Ug': 2, 'Uc': 3, 'Ud': 4}[o]]
            u = self.fresh_data(N, nc)
            self.emit_update('pp.update', 'P', u)
            self.state['P'] = u
        elif o == 'Ui':
            # update that keeps shape, FIRST and LAST breakpoint (same variables) and replaces interior breakpoints and coefficients
            cur = self.state['P']
            if cur is None:
                return
            N, nc, b0, c0 = self.data[cur]
            u = self.nupd
            self.nupd += 1
            lo, hi = s.shadows[b0[0]], s.shadows[b0[-1]]
            cuts = sorted(self.rng.uniform(0.1, 0.9) for _ in range(N - 1))
            b = [b0[0]] + [s.var('u%db%d' % (u, i + 1), round(lo + (hi - lo) * f, 4)) for i, f in enumerate(cuts)] + [b0[-1]]
            c = [s.var('u%dc%d_%d' % (u, r, d), round(self.rng.uniform(-2, 2), 3)) for r in range(N * nc) for d in range(self.dim)]
            self.data[u] = (N, nc, b, c)
            self.emit_update('pp.update', 'P', u)
            self.state['P'] = u
        elif o == 'Ub':
            # rejected update: coefficient row count does not match
            N, nc = sh[0]
            u = self.fresh_data(N, nc)
            N_, nc_, b, c = self.data[u]
            s.add('pp.update P', N + 1, *b, N * nc - 1, *c[:(N * nc - 1) * self.dim], nc)
            self.state['P'] = None
        elif o == 'CP':
            q = 'Q%d' % self.ncopy
            self.ncopy += 1
            s.add('pp.copy', q, 'P')
            self.state[q] = self.state['P']
        elif o == 'MC':
            q = 'Q%d' % self.ncopy
            self.ncopy += 1
            s.add('pp.movector', q, 'P')
            self.state[q] = self.state['P']
        elif o == 'AS':
            q = 'Q%d' % self.ncopy
            self.ncopy += 1
            # assign over an object that already has (other) data and a built cache
            N, nc = sh[2]
            u = self.fresh_data(N, nc)
            self.emit_update('pp.new', q, u)
            s.add('pp.seg', q, 'idx 0 tl 1 junk%d' % len(s.lines))
            s.add('pp.assign', q, 'P')
            self.state[q] = self.state['P']
        elif o == 'MV':
            # assignment from an RVALUE (move assignment where the class has one) over an object that has other data and a built cache
            q = 'Q%d' % self.ncopy
            self.ncopy += 1
            N, nc = sh[2]
            u = self.fresh_data(N, nc)
            self.emit_update('pp.new', q, u)
            s.add('pp.seg', q, 'idx 0 tl 1 junk%d' % len(s.lines))
            s.add('pp.seg', q, 'idx 0 tl 2 junk%d' % len(s.lines))
            s.add('pp.moveassign', q, 'P')
            self.state[q] = self.state['P']
        elif o == 'SA':
            # self-assignment, and a copy that is destroyed again (its source must not notice)
            s.add('pp.selfassign P')
            s.add('pp.copy TMPC P')
            s.add('pp.destroy TMPC')
        elif o == 'DV':
            if self.state['P'] is not None:
                s.add('pp.deriv DVX P 1')
                s.add('pp.seg DVX idx 0 tl 0 junk%d' % len(s.lines))

    def finish(self):
        """final observations of every live object next to a fresh object built from the data it must reflect"""
        s = self.s
        obs = []
        for obj, u in self.state.items():
            s.add('pp.meta', obj, 'M' + obj)
            if u is None:
                obs.append((obj, None))
                continue
            N, nc, b, c = self.data[u]
            f = 'F' + obj
            self.emit_update('pp.new', f, u)
            s.add('pp.meta', f, 'M' + f)
            for k in sorted({0, 1, 2, nc - 1, nc}):
                for i in range(N):
                    s.add('pp.seg', obj, 'idx', i, 'tl', k, 'o_%s_%d_%d' % (obj, i, k))
                    s.add('pp.seg', f, 'idx', i, 'tl', k, 'o_%s_%d_%d' % (f, i, k))
            s.add('pp.deriv', 'D' + obj, obj, 1)
            s.add('pp.deriv', 'D' + f, f, 1)
            if nc > 1:
                s.add('pp.seg', 'D' + obj, 'idx 0 tl 0', 'od_%s' % obj)
                s.add('pp.seg', 'D' + f, 'idx 0 tl 0', 'od_%s' % f)
            obs.append((obj, u))
        return obs


@C.run_scenarios
def run_task(t):
    ty = t['ty']
    tu = build.ppoly_tu(*TYPES[ty])
    out = []
    for seq in t['seqs']:
        rng = C.rng_for(t['seed'], 'C11', ty, tuple(seq))
        g = Gen(ty, rng)
        g.s.var('tl', 0.31)
        g.s.var('tg', 0.77)
        N, nc = SHAPES[ty][0]
        u0 = g.fresh_data(N, nc)
        g.emit_update('pp.new', 'P', u0)
        g.state['P'] = u0
        for o in seq:
            g.op(o)
        obs = g.finish()
        dim = TYPES[ty][0]

        def assume(enc, g=g):
            fs = []
            for u, (N_, nc_, b, c) in g.data.items():
                for i in range(N_):
                    if b[i] in enc.dag.varid and b[i + 1] in enc.dag.varid:
                        fs.append(enc.var(b[i]) < enc.var(b[i + 1]))
            return fs
        ex = P.Explorer(tu, g.s, assume, max_paths=64, timeout=5, nonlinear=True, budget_s=60)
        npath = 0
        for (dec, dag, enc0, sh) in ex.paths():
            sc = O.Scenario(ID, '%s seq=%s path#%d' % (ty, '-'.join(seq), npath), tu, g.s, decisions=dec, timeout=t['timeout'], dag=dag, shadow_override=sh)
            sc.assume += assume(sc.enc)
            npath += 1
            for obj, u in obs:
                if u is None:
                    sc.int_eq('%s uninitialised after the rejected update' % obj, 'M%s.init' % obj, 0)
                    sc.int_eq('%s has no segments after the rejected update' % obj, 'M%s.nseg' % obj, 0)
                    continue
                N_, nc_, b, c = g.data[u]
                f = 'F' + obj
                sc.int_eq('%s initialised' % obj, 'M%s.init' % obj, 1)
                sc.int_eq('%s segment count' % obj, 'M%s.nseg' % obj, N_)
                sc.int_eq('%s coefficient count' % obj, 'M%s.ncoef' % obj, nc_)
                sc.int_eq('%s breakpoint count' % obj, 'M%s.nbp' % obj, N_ + 1)
                for key in ['bp.%d' % i for i in range(N_ + 1)] + ['start', 'end', 'dur']:
                    sc.uf_eq('%s %s == fresh object from the data it must reflect' % (obj, key), 'M%s.%s' % (obj, key), 'M%s.%s' % (f, key), real_fallback=True)
                for k in sorted({0, 1, 2, nc_ - 1, nc_}):
                    for i in range(N_):
                        for d in range(dim):
                            sc.uf_eq('%s piece %d order %d [%d] == fresh object from the data it must reflect' % (obj, i, k, d),
                                     'o_%s_%d_%d.%d' % (obj, i, k, d), 'o_%s_%d_%d.%d' % (f, i, k, d))
                if nc_ > 1:
                    for d in range(dim):
                        sc.uf_eq('%s derivative trajectory == fresh [%d]' % (obj, d), 'od_%s.%d' % (obj, d), 'od_%s.%d' % (f, d))
            out.append(sc)
        if not ex.complete:
            fin = O.Scenario(ID, '%s seq=%s (exploration)' % (ty, '-'.join(seq)), tu, g.s, timeout=t['timeout'])
            fin._rec('path space fully explored', 'explore', 'unknown', detail='runs=%d unknown=%d (cap/budget hit: data-dependent branches in the update/copy path)' % (ex.runs, ex.unknown))
            out.append(fin)
    return out


@C.run_scenarios
def run_spline(t):
    """the trajectory exposed by a spline reflects the latest update, whatever was evaluated before"""
    o = t['order']
    d = 2
    tu = build.spline_tu(o, d)
    out = []
    for (N0, N1, evals) in ((2, 2, (0, 1)), (2, 3, (0,)), (3, 1, (2,)), (1, 1, (0, 1, 2)), (2, 2, ())):
        for mode in ('dur', 'tp', 'swap'):
            if mode == 'swap' and not (N0 == N1 and N0 >= 2):
                continue
            rng = C.rng_for(t['seed'], 'C11s', o, N0, N1, mode)
            s = D.Script()
            s.var('tl', 0.29)
            s.var('tg', 0.9)
            a = C.Problem(s, 'a', o, d, N0, rng)
            b = C.Problem(s, 'b', o, d, N1, rng)
            a.new(s, 'S')
            for k in evals:
                s.add('sp.seg S 0 tl', k, 'junk%d' % k)
                s.add('sp.eval S tg', k, 'junkg%d' % k)
            s.add('sp.trajref HELD S')
            s.add('sp.traj OLD S ref')
            for how in ('copy', 'ppoly', 'ppolycopy'):
                s.add('sp.traj OLD%s S %s' % (how, how))
            if mode == 'swap':
                # same start time, same durations in reversed order: first and last knot unchanged (bit-identical with the
                # dyadic shadows), interior knots moved
                b.h = list(reversed(a.h))
                b.t0 = a.t0
                for nm in a.h + [a.t0]:
                    s.shadows[nm] = C.dyadic(rng, 0.75, 1.75)
            if mode in ('dur', 'swap'):
                b.update(s, 'S')
                b.new(s, 'F')
            else:
                q, acc = [], rng.uniform(-1, 1)
                for i in range(N1 + 1):
                    q.append(s.var('q%d' % i, round(acc, 3)))
                    acc += rng.uniform(0.6, 1.7)
                s.add('sp.update S tp', N1 + 1, *q, N1 + 1, *b.flatP(), b.bcname)
                s.add('sp.new F tp', N1 + 1, *q, N1 + 1, *b.flatP(), b.bcname)
            a.new(s, 'FA')
            s.add('sp.traj NT S ref')
            s.add('sp.traj FT F ref')
            s.add('pp.meta NT MN')
            s.add('pp.meta FT MF')
            s.add('pp.meta HELD MH')
            # an evaluated spline re-assigned from a temporary built from other data
            c_ = C.Problem(s, 'c', o, d, N1, rng)
            c_.new(s, 'MVT')
            s.add('sp.seg MVT 0 tl 1 junkmv')
            s.add('sp.eval MVT tg 0 junkmvg')
            s.add('sp.moveassign MVT S')
            for k in (0, 1, 2):
                for i in range(N1):
                    s.add('sp.seg MVT', i, 'tl', k, 'mv_%d_%d' % (i, k))
            for k in range(0, C.NC[o] + 1):
                for i in range(N1):
                    s.add('sp.seg S', i, 'tl', k, 'n_%d_%d' % (i, k))
                    s.add('sp.seg F', i, 'tl', k, 'f_%d_%d' % (i, k))
                    s.add('pp.seg HELD idx', i, 'tl', k, 'held_%d_%d' % (i, k))
            for k in (0, 1):
                for i in range(N0):
                    s.add('pp.seg OLD idx', i, 'tl', k, 'old_%d_%d' % (i, k))
                    for how in ('copy', 'ppoly', 'ppolycopy'):
                        s.add('pp.seg OLD%s idx' % how, i, 'tl', k, 'old%s_%d_%d' % (how, i, k))
                    s.add('sp.seg FA', i, 'tl', k, 'fa_%d_%d' % (i, k))

            def assume(enc, a=a, b=b):
                return [enc.var(h) > 0 for h in a.h + b.h if h in enc.dag.varid] + \
                       [enc.var('q%d' % i) < enc.var('q%d' % (i + 1)) for i in range(N1) if 'q%d' % i in enc.dag.varid]
            ex = P.Explorer(tu, s, assume, max_paths=64, timeout=5, nonlinear=True, budget_s=60)
            n = 0
            for (dec, dag, enc0, sh) in ex.paths():
                sc = O.Scenario(ID, '%s N%d->N%d %s evals%s path#%d' % (t['name'], N0, N1, mode, list(evals), n), tu, s, decisions=dec, timeout=t['timeout'], dag=dag, shadow_override=sh)
                sc.assume += assume(sc.enc)
                n += 1
                for k in range(0, C.NC[o] + 1):
                    for i in range(N1):
                        for dd in range(d):
                            sc.uf_eq('after update: piece %d order %d [%d] == fresh spline' % (i, k, dd), 'n_%d_%d.%d' % (i, k, dd), 'f_%d_%d.%d' % (i, k, dd))
                            sc.uf_eq('a reference to getTrajectory() obtained before the update reflects the update: piece %d order %d [%d]' % (i, k, dd), 'held_%d_%d.%d' % (i, k, dd), 'f_%d_%d.%d' % (i, k, dd))
                for key in ['bp.%d' % i for i in range(N1 + 1)] + ['start', 'end', 'dur']:
                    sc.uf_eq('after update: trajectory %s == fresh spline' % key, 'MN.' + key, 'MF.' + key, real_fallback=True)
                    sc.uf_eq('held trajectory reference after update: %s == fresh spline' % key, 'MH.' + key, 'MF.' + key, real_fallback=True)
                sc.int_eq('after update: trajectory breakpoint count', 'MN.nbp', N1 + 1)
                for k in (0, 1, 2):
                    for i in range(N1):
                        for dd in range(d):
                            sc.uf_eq('evaluated spline assigned from a temporary copy of the updated spline: piece %d order %d [%d] == fresh' % (i, k, dd), 'mv_%d_%d.%d' % (i, k, dd), 'f_%d_%d.%d' % (i, k, dd))
                for k in (0, 1):
                    for i in range(N0):
                        for dd in range(d):
                            sc.uf_eq('copy taken before the update keeps the old trajectory: piece %d order %d [%d]' % (i, k, dd), 'old_%d_%d.%d' % (i, k, dd), 'fa_%d_%d.%d' % (i, k, dd))
                            for how in ('copy', 'ppoly', 'ppolycopy'):
                                sc.uf_eq('trajectory obtained through the %s accessor before the update keeps the old data: piece %d order %d [%d]' % (how, i, k, dd), 'old%s_%d_%d.%d' % (how, i, k, dd), 'fa_%d_%d.%d' % (i, k, dd))
                out.append(sc)
            if not ex.complete:
                fin = O.Scenario(ID, '%s (exploration)' % t['name'], tu, s, timeout=t['timeout'])
                fin._rec('path space fully explored', 'explore', 'unknown', detail='runs=%d unknown=%d (cap/budget hit: data-dependent branches in the update/copy path)' % (ex.runs, ex.unknown))
                out.append(fin)
    return out


def validation(tier, seed):
    v = []
    for ty in TYPES:
        rng = C.rng_for(seed, 'C11v', ty)
        g = Gen(ty, rng)
        g.s.var('tl', 0.31)
        g.s.var('tg', 0.77)
        N, nc = SHAPES[ty][0]
        u0 = g.fresh_data(N, nc)
        g.emit_update('pp.new', 'P', u0)
        g.state['P'] = u0
        for o in ('E1', 'Uc', 'CP', 'Us'):
            g.op(o)
        g.finish()
        v.append((build.ppoly_tu(*TYPES[ty]), g.s, None))
    return v
