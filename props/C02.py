"""C02 - minimum acceleration/jerk/snap interpolant: C^{2s-2} continuity at interior knots, uniqueness of the
optimality system, first-order optimality against every admissible piecewise-polynomial perturbation."""
from fractions import Fraction
import z3
from enc import build, dag as D, real as R, ob as O
from . import common as C

ID = 'C02'
LEVEL = C.LEVEL
EXPLANATION = C.EXPLANATION
ASSUMPTIONS = C.ASSUMPTIONS + ['the infinite-dimensional statement (among all sufficiently smooth curves) follows from continuity + natural conditions by the classical minimum-norm argument, which is not re-proved; decided here: the optimality system is satisfied, has a unique solution, and the first variation vanishes for every admissible piecewise polynomial perturbation of degree 2s-1']
FUNCTIONS = ['solveSpline/computeLUAndSolve (Thomas)', 'solveQuintic/solveInternalDerivatives (2x2 block Thomas)', 'solveSepticSpline (3x3 block Thomas)',
             'Inverse2x2/Inverse3x3, MultiplyStoredBlock helpers', 'PPolyND::Segment::evaluate', 'constructors (duration route)']
OUTSIDE = ['floating-point rounding (C18)', 'N above the caps', 'the variational theorem itself']


def caps(tier):
    if tier == 'quick':
        return {'tall': {3: 5, 5: 3, 7: 2}, 'tgridN': 6, 'dims_all': (1,), 'dims_grid': (1, 2, 3), 'tline': {3: 6, 5: 4, 7: 3}, 'varN': 3}
    return {'tall': {3: 6, 5: 4, 7: 3}, 'tgridN': 10, 'dims_all': (1, 2), 'dims_grid': (1, 2, 3, 4), 'tline': {3: 8, 5: 6, 7: 4}, 'varN': 5}


def bounds(tier):
    c = caps(tier)
    return {'T-all': 'N<=%s, DIM %s' % (c['tall'], list(c['dims_all'])), 'T-line': 'N<=%s DIM 1, every position' % c['tline'],
            'T-grid': 'N=1..%d, DIM %s' % (c['tgridN'], list(c['dims_grid'])),
            'uniqueness (homogeneous optimality system has only the zero solution)': 'T-grid N=1..%d; T-all N<=2' % c['tgridN'],
            'first variation == 0': 'T-grid N<=%d, DIM 1, per unit vector of the data (linearity split)' % c['varN']}


def tus(tier):
    c = caps(tier)
    dims = sorted(set(c['dims_all']) | set(c['dims_grid']))
    return [build.spline_tu(o, d) for o in C.ORDERS for d in dims]


def tasks(tier, seed):
    c = caps(tier)
    to = 60 if tier == 'quick' else 600
    T = []
    for o in C.ORDERS:
        for d in c['dims_all']:
            for N in range(2, c['tall'][o] + 1):
                T.append({'name': 'T-all o%d d%d N%d' % (o, d, N), 'order': o, 'dim': d, 'N': N, 'mode': 'all', 'seed': seed, 'timeout': to})
        for N in range(2, c['tline'][o] + 1):
            grid = C.duration_grid(o, N, tier, seed)
            for pos in range(N):
                g = grid[(3 + pos) % len(grid)]
                T.append({'name': 'T-line o%d d1 N%d pos%d %s' % (o, N, pos, C.fmt_durs(g)), 'order': o, 'dim': 1, 'N': N, 'mode': 'line', 'pos': pos,
                          'durs': [str(x) for x in g], 'seed': seed, 'timeout': to})
        for d in c['dims_grid']:
            for N in range(2, c['tgridN'] + 1):
                grid = C.duration_grid(o, N, tier, seed)
                if d >= 3 and tier == 'quick':
                    grid = grid[:3]
                for gi, g in enumerate(grid):
                    T.append({'name': 'T-grid o%d d%d N%d g%d %s' % (o, d, N, gi, C.fmt_durs(g)), 'order': o, 'dim': d, 'N': N, 'mode': 'grid',
                              'durs': [str(x) for x in g], 'seed': seed, 'timeout': to})
        for N in range(1, c['tgridN'] + 1):
            for gi, g in enumerate(C.duration_grid(o, N, tier, seed)):
                T.append({'name': 'unique o%d N%d g%d %s' % (o, N, gi, C.fmt_durs(g)), 'fn': 'run_unique', 'order': o, 'N': N, 'durs': [str(x) for x in g], 'timeout': to})
        for N in (1, 2):
            T.append({'name': 'unique o%d N%d T-all' % (o, N), 'fn': 'run_unique', 'order': o, 'N': N, 'durs': None, 'timeout': to})
        for N in range(1, c['varN'] + 1):
            for gi, g in enumerate(C.duration_grid(o, N, tier, seed)[:4]):
                T.append({'name': 'variation o%d N%d g%d %s' % (o, N, gi, C.fmt_durs(g)), 'fn': 'run_variation', 'order': o, 'N': N,
                          'durs': [str(x) for x in g], 'seed': seed, 'timeout': to})
    return T


def build_script(o, d, N, seed):
    rng = C.rng_for(seed, 'C02', o, d, N)
    s = D.Script()
    pr = C.Problem(s, '', o, d, N, rng)
    pr.new(s, 'S')
    s.add('sp.coeffs S c')
    sd = C.SD[o]
    for i in range(N - 1):
        for k in range(0, 2 * sd - 1):
            s.add('sp.seg S', i, pr.h[i], k, 'L%d_%d' % (i, k))
            s.add('sp.seg S', i + 1, 0, k, 'R%d_%d' % (i, k))
    return s, pr


@C.run_scenarios
def run_task(t):
    o, d, N = t['order'], t['dim'], t['N']
    s, pr = build_script(o, d, N, t['seed'])
    kw = {}
    if t['mode'] == 'all':
        if o >= 5:
            kw['inv_vars'] = pr.h
    elif t['mode'] == 'grid':
        kw['subst'] = {h: Fraction(x) for h, x in zip(pr.h, t['durs'])}
    else:
        kw['subst'] = {h: Fraction(x) for i, (h, x) in enumerate(zip(pr.h, t['durs'])) if i != t['pos']}
    so = {h: float(v) for h, v in kw.get('subst', {}).items()}
    sc = O.Scenario(ID, t['name'], build.spline_tu(o, d), s, timeout=t['timeout'], enc_kwargs=kw, shadow_override=so)
    sc.positive(pr.h)
    sd = C.SD[o]
    for i in range(N - 1):
        for k in range(0, 2 * sd - 1):
            for dd in range(d):
                sc.real_eq('derivative %d continuous at interior knot %d [dim %d]' % (k, i + 1, dd), 'L%d_%d.%d' % (i, k, dd),
                           sc.enc.out('R%d_%d.%d' % (i, k, dd)))
    sc.path_forced()
    sc.side_conditions()
    return [sc]


def spec_system(o, N, hs, cvar):
    """linear optimality system in the coefficient variables cvar[i][m] (one dimension), homogeneous data.
    hs: list of z3 terms / rationals.  Returns list of z3 equalities (interpolation, boundary, continuity 1..2s-2)."""
    sd = C.SD[o]
    nc = C.NC[o]

    def ev(i, t, k):
        acc = 0
        for m in range(nc - 1, k - 1, -1):
            ff = 1
            for j in range(k):
                ff *= (m - j)
            acc = acc * t + ff * cvar[i][m]
        return acc
    eqs = []
    for i in range(N):
        eqs.append(ev(i, 0, 0) == 0)
        eqs.append(ev(i, hs[i], 0) == 0)
    for k in range(1, sd):
        eqs.append(ev(0, 0, k) == 0)
        eqs.append(ev(N - 1, hs[N - 1], k) == 0)
    for i in range(N - 1):
        for k in range(1, 2 * sd - 1):
            eqs.append(ev(i, hs[i], k) == ev(i + 1, 0, k))
    return eqs


@C.run_scenarios
def run_unique(t):
    """the optimality system (which C01 + continuity show the published coefficients satisfy) has a unique solution:
    its homogeneous version forces all 2sN coefficients to zero.  A statement about the specification, discharged so
    that 'coefficients coincide with the unique minimiser' is a consequence and not an assumption."""
    o, N = t['order'], t['N']
    nc = C.NC[o]
    s = D.Script()
    s.var('dummy', 1.0)
    s.add('out dummy dummy')
    sc = O.Scenario(ID, t['name'], build.spline_tu(o, 1), s, timeout=t['timeout'])
    cv = [[z3.Real('c_%d_%d' % (i, m)) for m in range(nc)] for i in range(N)]
    if t['durs'] is None:
        hs = [z3.Real('h%d' % i) for i in range(N)]
        pos = [h > 0 for h in hs]
    else:
        hs = [R.Q(Fraction(x)) for x in t['durs']]
        pos = []
    eqs = spec_system(o, N, hs, cv)
    nz = z3.Or([c != 0 for row in cv for c in row])
    r = R.solve('unique', pos + eqs + [nz], t['timeout'], logic='QF_NRA' if t['durs'] is None else 'QF_LRA')
    sc.queries += 1
    sc.solver_time += r.t
    sc._rec('homogeneous optimality system has only the zero solution (%d unknowns, %d equations)' % (N * nc, len(eqs)), 'real',
            r.status if r.status != 'sat' else 'sat', r.t, h=hash((o, N, str(t['durs']))), confirmed=False, detail=r.detail,
            note='specification-level lemma: a sat here means the stated optimality conditions do not determine the spline')
    return [sc]


@C.run_scenarios
def run_variation(t):
    """first-order optimality: for the published coefficients p (T-grid durations, data = each unit vector in turn) and every
    perturbation delta (piecewise degree 2s-1, zero at knots, zero boundary derivatives 1..s-1, C^{s-1}),
    sum_i int_0^{h_i} p_i^(s) delta_i^(s) dt == 0."""
    o, N = t['order'], t['N']
    sd, nc = C.SD[o], C.NC[o]
    s, pr = build_script(o, 1, N, t['seed'])
    durs = [Fraction(x) for x in t['durs']]
    inputs = [nm for (_, nm) in pr.inputs() if not nm.startswith('h') or nm not in pr.h]
    inputs = [nm for (key, nm) in pr.inputs() if key[0] != 'h']
    out = []
    dv = [[z3.Real('d_%d_%d' % (i, m)) for m in range(nc)] for i in range(N)]

    def dev(i, tt, k):
        acc = 0
        for m in range(nc - 1, k - 1, -1):
            ff = 1
            for j in range(k):
                ff *= (m - j)
            acc = acc * tt + ff * dv[i][m]
        return acc
    cons = []
    hq = [R.Q(x) for x in durs]
    for i in range(N):
        cons.append(dev(i, 0, 0) == 0)
        cons.append(dev(i, hq[i], 0) == 0)
    for k in range(1, sd):
        cons.append(dev(0, 0, k) == 0)
        cons.append(dev(N - 1, hq[N - 1], k) == 0)
    for i in range(N - 1):
        for k in range(1, sd):
            cons.append(dev(i, hq[i], k) == dev(i + 1, 0, k))
    for unit in inputs:
        sub = {h: x for h, x in zip(pr.h, durs)}
        for nm in inputs:
            sub[nm] = Fraction(1 if nm == unit else 0)
        sub[pr.t0] = Fraction(0)
        sc = O.Scenario(ID, '%s data=e[%s]' % (t['name'], unit), build.spline_tu(o, 1), s, timeout=t['timeout'], enc_kwargs={'subst': sub})
        E = sc.enc
        B = 0
        for i in range(N):
            # p_i^(s)(t) = sum_m ff(m,s) c_m t^(m-s);  delta likewise;  integral of product over [0,h]
            pc = []
            for m in range(sd, nc):
                v = E.out('c.%d.0' % (i * nc + m))
                assert v.is_const(), 'coefficient not constant under full substitution'
                ff = 1
                for j in range(sd):
                    ff *= (m - j)
                pc.append((m - sd, v.c * ff))
            for (a, ca) in pc:
                if ca == 0:
                    continue
                for m in range(sd, nc):
                    ff = 1
                    for j in range(sd):
                        ff *= (m - j)
                    b = m - sd
                    B = B + R.Q(ca * ff * durs[i] ** (a + b + 1) / (a + b + 1)) * dv[i][m]
        if isinstance(B, int):
            sc._rec('first variation vanishes', 'real', 'unsat', 0.0, trivial=True)
        else:
            r = R.solve('var', cons + [B != 0], t['timeout'], logic='QF_LRA')
            sc.queries += 1
            sc.solver_time += r.t
            if r.status == 'sat':
                sc._rec('first variation vanishes for every admissible perturbation', 'real', 'sat', r.t, confirmed=True, model=r.model,
                        note='a perturbation that keeps waypoints/boundary states has non-zero first variation: the published spline is not the minimiser',
                        replay=sc.write_replay('variation', {'kind': 'structural', 'note': 'first variation non-zero; delta=' + str(r.model)[:500], 'shadows': {k: float(v) for k, v in sub.items()}}))
            else:
                sc._rec('first variation vanishes for every admissible perturbation', 'real', r.status, r.t, h=B.hash(), detail=r.detail)
        out.append(sc)
    return out


def validation(tier, seed):
    v = []
    for o in C.ORDERS:
        s, pr = build_script(o, 3, 5, seed + 11)
        v.append((build.spline_tu(o, 3), s, None))
    return v
