"""C19 - the built-in gradient self-check: right components, right step, right norms, right verdict, state restored."""
from fractions import Fraction
import z3
from enc import build, dag as D, real as R, ob as O
from . import common as C, optc as X
from .C10 import compare_all

ID = 'C19'
LEVEL = C.LEVEL
EXPLANATION = C.EXPLANATION + ('; the user functors are polynomial costs with SYMBOLIC coefficients (and an optional symbolic error delta in one gradient component); every quantity checkGradients returns is compared '
                               'with the same quantity assembled from SEPARATE evaluate() calls at x, x + eps e_i, x - eps e_i in the same recording (node identity = the right component is perturbed by the right step, '
                               'restored, and divided by the right step), norms and verdict through the Real interpretation with the gradient vectors cut to free variables')
ASSUMPTIONS = ['order, DIM, N, flags, overload concrete and enumerated; decision vector, reference state, cost coefficients, eps, tol, delta symbolic',
               'verdict semantics (Real, linear arithmetic after substitution) on small instances with the identity time map: the time variable sits on a rational grid, all other inputs symbolic in a box; perturbations in the time-cost '
               'and waypoint-cost gradients (these reach the total gradient one-to-one); a wrong running-cost gradient component reaches the total gradient through quadrature weights and is covered structurally only',
               'UF = bit-identity on Eigen scalar paths; exact real arithmetic for norms']
FUNCTIONS = ['SplineOptimizer::checkGradients (3-cost, 2-cost)', 'GradientCheckResult (valid, error_norm, rel_error, analytical, numerical, makeReport)', 'evaluate (as called by checkGradients)', 'getOptimalSpline / workspace spline afterwards']
OUTSIDE = ['N > 2', 'DIM > 2', 'verdict for wrong running-cost gradient components (sensitivity dependent)', 'floating-point cancellation in the finite difference (C18 territory)']
HARD_TIMEOUT = {'quick': 900, 'thorough': 3000}


def cfg(tier):
    if tier == 'quick':
        return {'cases': [(3, 1, 1), (5, 1, 2), (7, 2, 1), (5, 2, 2), (3, 2, 2)], 'flags': X.PAIRWISE}
    return {'cases': [(o, d, N) for o in (3, 5, 7) for d in (1, 2) for N in (1, 2, 3)], 'flags': X.TRIPLEWISE}


def bounds(tier):
    c = cfg(tier)
    return {'(order, DIM, N)': [list(x) for x in c['cases']], 'flags': c['flags'], 'overloads': '3-cost and 2-cost; explicit and built-in workspace; default and explicit eps/tol',
            'functors': 'correct polynomial costs; one perturbed gradient component in the time / waypoint / running cost', 'verdict semantics': 'cubic and quintic, DIM 1, N 1, identity time map, time variable on a rational grid'}


def tus(tier):
    c = cfg(tier)
    return [build.opt_tu(o, d, 'quad', 'ident') for (o, d, N) in sorted(set(c['cases']))] + [build.opt_tu(o, 1, 'ident', 'ident') for o in (3, 5)]


def tasks(tier, seed):
    c = cfg(tier)
    T = []
    for (o, d, N) in c['cases']:
        for fm in c['flags']:
            T.append({'name': 'selfcheck o%d d%d N%d flags=%s' % (o, d, N, X.flags_str(X.flags_from_int(fm))), 'order': o, 'dim': d, 'N': N, 'fm': fm, 'seed': seed, 'timeout': 60})
    for o in (3, 5):
        T.append({'name': 'verdict o%d' % o, 'fn': 'run_verdict', 'order': o, 'seed': seed, 'timeout': 120})
    return T


PERTS = [('none', 0), ('time', 0), ('way', 1), ('gp', 0), ('gt', 0)]


def build_script(o, d, N, fl, variant, seed, kind='ident', explicit_eps=True, ws='-', costs='p3', x_override=None):
    """variant: (perturbation kind, index)"""
    rng = C.rng_for(seed, 'C19', o, d, N, X.flags_str(fl), variant, kind, costs)
    s = D.Script()
    op = X.OptProblem(s, '', o, d, N, rng)
    n = X.ref_layout(o, N, d, fl, X.dof_ident(d))[2]
    xs = op.xvars(n, tau_sign=1)
    pc = [s.var('pc%d' % i, round(rng.uniform(0.2, 1.0), 3)) for i in range(10)]
    rho = s.var('rho', 0.3)
    eps = s.var('eps', 1e-6)
    tol = s.var('tol', 1e-4)
    delta = s.var('delta', 0.05)
    s.add('opt.new O')
    op.init('O')
    X.set_flags(s, 'O', fl)
    s.add('opt.rho O', rho)
    s.add('opt.steps O 2')
    s.add('opt.poly', *pc)
    if variant[0] != 'none':
        s.add('opt.perturb', variant[0], variant[1], delta)
    if ws != '-':
        s.add('opt.wsnew', ws)
    if explicit_eps:
        s.add('opt.checkgrad O R', n, *xs, ws, costs, 'cg', eps, tol)
    else:
        s.add('opt.checkgrad O R', n, *xs, ws, costs, 'cg')
    s.add('opt.spline O RS' if ws == '-' else 'opt.wsspline %s RS' % ws)
    # the same quantities from separate evaluations
    s.add('opt.wsnew WX')
    X.eval_cmd(s, 'O', 'E', xs, ws='WX', costs=costs, tag='cg')
    s.add('opt.wsspline WX ES')
    step = eps if explicit_eps else '1e-6'
    s.add('let twoeps mul 2', step)
    for i in range(n):
        s.add('let xp%d add' % i, xs[i], step)
        s.add('let xm%d sub' % i, xs[i], step)
        X.eval_cmd(s, 'O', 'EP%d' % i, [('xp%d' % i if j == i else xs[j]) for j in range(n)], ws='WX', costs=costs, tag='cg')
        X.eval_cmd(s, 'O', 'EM%d' % i, [('xm%d' % i if j == i else xs[j]) for j in range(n)], ws='WX', costs=costs, tag='cg')
        s.add('bind cp%d EP%d.cost' % (i, i))
        s.add('bind cm%d EM%d.cost' % (i, i))
        s.add('let df%d sub cp%d cm%d' % (i, i, i))
        s.add('let nm%d div df%d twoeps' % (i, i))
        s.add('out NUM.%d nm%d' % (i, i))
    return s, n, xs


@C.run_scenarios
def run_task(t):
    o, d, N = t['order'], t['dim'], t['N']
    fl = X.flags_from_int(t['fm'])
    tu = build.opt_tu(o, d, 'quad', 'ident')
    out = []
    combos = []
    for vi, variant in enumerate(PERTS):
        combos.append((variant, True, '-' if vi % 2 == 0 else 'W', 'p3' if vi % 3 else 'p2'))
    combos.append((('none', 0), False, '-', 'p3'))
    combos.append((('time', 0), False, 'W', 'p2'))
    for (variant, explicit, ws, costs) in combos:
        if variant[0] == 'way' and costs == 'p2':
            costs = 'p3'
        s, n, xs = build_script(o, d, N, fl, variant, t['seed'], explicit_eps=explicit, ws=ws, costs=costs)
        # two shadow settings so that both outcomes of the verdict comparison are exercised
        for tolsh in (1e-4, 1e3):
            so = {'tol': tolsh} if explicit else {}
            if not explicit and tolsh != 1e-4:
                continue
            g = D.run(tu, s.text(None, so))
            cuts = {}
            for i in range(n):
                cuts.setdefault(g.outs['R.an.%d' % i], 'AN%d' % i)
                cuts.setdefault(g.outs['R.num.%d' % i], 'NU%d' % i)
            sc = O.Scenario(ID, '%s perturb=%s%d %s ws=%s eps/tol=%s tolshadow=%g' % (t['name'], variant[0], variant[1], costs, ws, 'explicit' if explicit else 'default', tolsh), tu, s, timeout=t['timeout'], dag=g,
                            enc_kwargs={'cuts': cuts}, shadow_override=so)
            E = sc.enc
            sc.int_eq('analytical has one entry per decision variable', 'R.na', n)
            sc.int_eq('numerical has one entry per decision variable', 'R.nn', n)
            for i in range(n):
                sc.uf_eq('analytical[%d] == gradient of a separate evaluate(x)' % i, 'R.an.%d' % i, 'E.g.%d' % i)
                if g.outs['R.num.%d' % i] == g.outs['NUM.%d' % i] or sc.uf.same(g.outs['R.num.%d' % i], g.outs['NUM.%d' % i]):
                    sc.uf_eq('numerical[%d] == (cost(x + eps e_%d) - cost(x - eps e_%d)) / (2 eps) from separate evaluations' % (i, i, i), 'R.num.%d' % i, 'NUM.%d' % i)
                else:
                    # not the same operations: accept any formula that is equal in exact arithmetic (the two costs cut to free variables)
                    E2 = R.Enc(g, cuts={g.outs['EP%d.cost' % i]: 'CP', g.outs['EM%d.cost' % i]: 'CM'})
                    sc2 = O.Scenario(ID, sc.name + ' [numerical %d]' % i, tu, s, timeout=t['timeout'], dag=g, enc_kwargs={'cuts': {g.outs['EP%d.cost' % i]: 'CP', g.outs['EM%d.cost' % i]: 'CM'}}, shadow_override=so)
                    sc2.assume.append(sc2.enc.var('eps') > 0) if explicit else None
                    sc2.real_eq('numerical[%d] == (cost(x + eps e_%d) - cost(x - eps e_%d)) / (2 eps) in exact arithmetic (costs cut)' % (i, i, i), 'R.num.%d' % i, sc2.enc.out('NUM.%d' % i), with_path=False)
                    out.append(sc2)
            # norms (Real, with the two gradient vectors cut to free variables)
            an = [E.out('R.an.%d' % i) for i in range(n)]
            nu = [E.out('R.num.%d' % i) for i in range(n)]
            err = E.out('R.err')
            sq = E.sum([E.mul(E.add(a, b, -1), E.add(a, b, -1)) for a, b in zip(an, nu)])
            sc.real_eq('error_norm^2 == sum (analytical - numerical)^2', None, sq, lhs_val=E.mul(err, err), with_path=False)
            sc.real_true('error_norm >= 0', E.le_formula(R.VZERO, err), with_path=False)
            # relative error and verdict: semantic statements on the recorded path (whatever comparisons the code used to get there)
            gsq = E.sum([E.mul(a, a) for a in an])
            thr = R.Val(Fraction(1, 10 ** 9))
            rel = E.out('R.rel')
            # |analytical|: a square root the code itself took whose square is sum analytical_i^2 (any such node will do); if the
            # code computes the norm in another way a fresh non-negative G with G^2 = sum analytical_i^2 is used (harder for nlsat)
            roots = list(g.slice([g.outs['R.rel']])) + [x for f in g.path for x in (f[1], f[2]) if x >= 0]
            G, defs = None, []
            for j in sorted(set(roots)):
                if g.nodes[j][0] == D.SQRT and j != g.outs['R.err']:
                    y = E.node(j)
                    if z3.is_false(E.ne_formula(E.mul(y, y), gsq)) or R.solve('gn', sc.base(False) + [E.ne_formula(E.mul(y, y), gsq)], 10).status == 'unsat':
                        G = y
                        break
            if G is None:
                G = E.vvar('GNORM')
                defs = [E.fac[next(iter(G.f))] >= 0, E.eq_formula(E.mul(G, G), gsq)]
            f_rel = z3.Or(z3.And(E.lt_formula(thr, G), E.eq_formula(E.mul(rel, G), err)), z3.And(E.le_formula(G, thr), E.eq_formula(rel, err)))
            sc.real_true('rel_error == error_norm / |analytical| if |analytical| > 1e-9 else error_norm', f_rel, extra=defs)
            tolv = E.node(g.varid['tol']) if explicit else R.Val(Fraction(1, 10 ** 4))
            valid = g.ints['R.valid']
            f_valid = E.lt_formula(err, tolv) if valid else z3.Not(E.lt_formula(err, tolv))
            sc.real_true('valid == (error_norm < tol): the path on which valid=%d implies error_norm %s tol' % (valid, '<' if valid else '>='), f_valid)
            sc.int_eq('report says PASSED iff valid', 'R.reportPassed', valid)
            # state restored: the workspace spline is the one defined by x
            compare_all(sc, g, 'RS.', 'ES.', 'workspace spline after checkGradients == spline of evaluate(x)', ints_in_both=True)
            out.append(sc)
    return out


@C.run_scenarios
def run_verdict(t):
    """verdict semantics on the smallest instances (identity time map and identity spatial map, N=1, DIM 1)"""
    o = t['order']
    d, N = 1, 1
    tu = build.opt_tu(o, d, 'ident', 'ident')
    out = []
    fl = X.flags_from_int(0b00010011)   # start_p, start_v, end_p optimised
    tol2 = R.Val(Fraction(1, 10 ** 8))
    for variant in (('none', 0), ('time', 0), ('way', 1)):
        for tval in (Fraction(3, 4), Fraction(3, 2)):
            s, n, xs = build_script(o, d, N, fl, variant, 0, kind='tident', explicit_eps=False, ws='-', costs='p3')   # fixed data (not VERIF_SEED): the instance of the known finding
            so = {xs[0]: float(tval)}
            g = D.run(tu, s.text(None, so))
            # (a) all data symbolic, time variable on the grid: exact statements about single components
            sc = O.Scenario(ID, '%s perturb=%s T=%s [all data]' % (t['name'], variant[0], tval), tu, s, timeout=t['timeout'], dag=g, enc_kwargs={'subst': {xs[0]: tval}}, shadow_override=so)
            E = sc.enc
            for i in range(1, n):
                diff = E.add(E.out('R.an.%d' % i), E.out('R.num.%d' % i), -1)
                if variant[0] == 'way' and i == 2:
                    # decision variable 2 is waypoint 1 (end position): the wrong waypoint-gradient component reaches the gradient one-to-one
                    sc.real_eq('analytical[%d] - numerical[%d] == delta exactly (so error_norm >= |delta| >= 1e-2 > tol: reported invalid)' % (i, i), None, E.node(g.varid['delta']), lhs_val=diff, with_path=False)
                else:
                    sc.real_eq('analytical[%d] == numerical[%d] exactly (central differences are exact in this variable)' % (i, i), None, R.VZERO, lhs_val=diff, with_path=False)
            out.append(sc)
            # (b) the time component: cost coefficients (and delta) symbolic in a box, the remaining data on their concrete values
            keep = {'delta'} | {'pc%d' % i for i in range(10)}
            sub = {nm: Fraction(v).limit_denominator(1000) for nm, v in s.shadows.items() if nm not in keep and nm not in ('eps', 'tol')}
            sub[xs[0]] = tval
            so2 = {k: float(v) for k, v in sub.items()}
            g2 = D.run(tu, s.text(None, so2))
            sc2 = O.Scenario(ID, '%s perturb=%s T=%s [cost coefficients]' % (t['name'], variant[0], tval), tu, s, timeout=t['timeout'], dag=g2, enc_kwargs={'subst': sub}, shadow_override=so2)
            E2 = sc2.enc
            box = []
            for nm in keep:
                v = E2.var(nm)
                if nm == 'delta':
                    box += [z3.Or(v >= R.Q(Fraction(1, 100)), v <= -R.Q(Fraction(1, 100))), v <= 10, v >= -10]
                else:
                    box += [v >= 0, v <= 2]
            sc2.assume += box
            sq = E2.sum([E2.mul(E2.add(E2.out('R.an.%d' % i), E2.out('R.num.%d' % i), -1), E2.add(E2.out('R.an.%d' % i), E2.out('R.num.%d' % i), -1)) for i in range(n)])
            if variant[0] == 'none':
                sc2.real_true('correct functors, every cost coefficient in [0,2]: sum (analytical - numerical)^2 < tol^2 (error_norm < 1e-4: reported valid)', E2.lt_formula(sq, tol2), with_path=False)
                small = [E2.var('pc%d' % i) <= R.Q(Fraction(1, 50)) for i in range(10)]
                sc2.real_true('correct functors, every cost coefficient in [0,1/50]: sum (analytical - numerical)^2 < tol^2 (reported valid)', E2.lt_formula(sq, tol2), with_path=False, extra=small)
            else:
                sc2.real_true('%s-cost gradient component wrong by |delta| in [1e-2, 10]: sum (analytical - numerical)^2 >= tol^2 (reported invalid)' % variant[0], E2.le_formula(tol2, sq), with_path=False)
            out.append(sc2)
    return out


def validation(tier, seed):
    v = []
    for (o, d, N) in ((3, 1, 1), (5, 2, 2)):
        s, n, xs = build_script(o, d, N, X.flags_from_int(0b00010010), ('time', 0), seed)
        v.append((build.opt_tu(o, d, 'quad', 'ident'), s, None))
    return v
