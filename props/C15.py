"""C15 - copies of optimizers and splines are independent deep copies (default maps and built-in workspace owned, user maps referenced)."""
import itertools
from fractions import Fraction
from enc import build, dag as D, real as R, ob as O
from . import common as C, optc as X
from .C10 import compare_all, queries, mk_upstream

ID = 'C15'
LEVEL = C.LEVEL
EXPLANATION = C.EXPLANATION + ('; pointer identity is made observable through parameterised map types whose parameters are symbolic and which the destructor overwrites with POISON: the optimizer is instantiated with them '
                               '(so its DEFAULT maps are of these types), sources live in harness-owned placement storage so that "destroy the source" is an explicit destructor call on memory that stays mapped; '
                               'a copy that still reads a map inside its source sees POISON or the source\'s later parameters and is no longer node-identical to a fresh optimizer configured like the source was')
ASSUMPTIONS = ['histories (source configuration x way of copying x up to 2 later operations) concrete and enumerated exhaustively; all numeric data, map parameters and oracle outputs symbolic',
               'UF = bit-identity on Eigen scalar paths', 'memory errors that do not change a recorded scalar (double free, leak) are invisible to this technique']
FUNCTIONS = ['SplineOptimizer copy constructor', 'copy assignment (incl. self-assignment, over an optimizer with / without a built-in workspace)', 'setTimeMap / setSpatialMap (user map, nullptr -> default)', 'destructor',
             'evaluate / getOptimalSpline / generateInitialGuess / getDimension on the copy', 'Workspace copy', 'Cubic/Quintic/SepticSplineND copy construction and assignment']
OUTSIDE = ['more than 2 operations after the copy', 'heap errors without an effect on a scalar value', 'move operations']
HARD_TIMEOUT = {'quick': 900, 'thorough': 3000}

POST = ['MSf', 'MSi', 'MSa', 'DS', 'UM', 'EVs', 'NUL', 'CF']
FL_A = X.flags_from_int(0b01110110)
FL_B = X.flags_from_int(0b10001001)


def cfg(tier):
    if tier == 'quick':
        return {'cases': [(5, 2)], 'postlen': 2, 'splines': [(3, 2), (5, 1), (7, 2)]}
    return {'cases': [(5, 2), (3, 1), (7, 2)], 'postlen': 3, 'splines': [(o, d) for o in (3, 5, 7) for d in (1, 2)]}


def bounds(tier):
    c = cfg(tier)
    return {'(order, DIM) with parameterised user-type maps': [list(x) for x in c['cases']], 'source configurations': '{default, user} time map x {default, user} spatial map x {no built-in workspace yet, built-in workspace exists}',
            'ways of copying': 'copy-construct; assign over a differently configured optimizer with a built-in workspace; assign over one without; self-assignment',
            'later operations': 'all sequences up to length %d over {source: other flags, other initial state, assigned from another optimizer, destroyed, evaluated again; user map parameters changed; copy reset to its default maps; copy re-flagged}' % c['postlen'],
            'spline copies': [list(x) for x in c['splines']]}


def tus(tier):
    c = cfg(tier)
    return [build.opt_tu(o, d, 'gen', 'gen') for (o, d) in c['cases']] + [build.spline_tu(o, d) for (o, d) in c['splines']]


def tasks(tier, seed):
    c = cfg(tier)
    T = []
    posts = [()]
    for n in range(1, c['postlen'] + 1):
        posts += list(itertools.product(POST, repeat=n))
    for (o, d) in c['cases']:
        for tm in (0, 1):
            for sm in (0, 1):
                for ws in (0, 1):
                    for how in ('CC', 'ASw', 'ASn', 'SA'):
                        T.append({'name': 'opt o%d d%d tmap=%s smap=%s ws=%d %s' % (o, d, 'user' if tm else 'default', 'user' if sm else 'default', ws, how), 'order': o, 'dim': d, 'tm': tm, 'sm': sm, 'ws': ws, 'how': how,
                                  'posts': [list(p) for p in posts], 'seed': seed, 'timeout': 60})
    for (o, d) in c['splines']:
        T.append({'name': 'spline copies o%d d%d' % (o, d), 'fn': 'run_spline', 'order': o, 'dim': d, 'seed': seed, 'timeout': 60})
    return T


def valid_post(how, post):
    dead = False
    for p in post:
        if how == 'SA' and p in ('MSf', 'MSi', 'MSa', 'DS', 'EVs'):
            return False          # the "source" is the object itself
        if dead and p in ('MSf', 'MSi', 'MSa', 'DS', 'EVs'):
            return False
        if p == 'DS':
            dead = True
    return True


def configure(s, obj, probs, tm, sm, fl, rho):
    if tm:
        s.add('opt.settmap', obj, 'TMU')
    if sm:
        s.add('opt.setsmap', obj, 'SMU')
    probs.init(obj, 'I' + obj)
    X.set_flags(s, obj, fl)
    s.add('opt.rho', obj, rho)
    s.add('opt.steps', obj, 1)


@C.run_scenarios
def run_task(t):
    o, d, tm, sm, ws, how = t['order'], t['dim'], t['tm'], t['sm'], t['ws'], t['how']
    tu = build.opt_tu(o, d, 'gen', 'gen')
    out = []
    for post in t['posts']:
        if not valid_post(how, post):
            continue
        s = build_script(t, post)
        sc = O.Scenario(ID, '%s then %s' % (t['name'], '-'.join(post) or 'nothing'), tu, s, timeout=t['timeout'])
        g = sc.dag
        sc.int_eq('dimension of the copy == fresh optimizer configured like the source at copy time', 'Rdim', g.ints.get('Qdim'))
        compare_all(sc, g, 'RG.', 'QG.', 'initial guess of the copy')
        compare_all(sc, g, 'RE.', 'QE.', 'evaluation of the copy')
        compare_all(sc, g, 'RE@', 'QE@', 'functor arguments of the copy')
        compare_all(sc, g, 'RS.', 'QS.', 'exposed spline of the copy')
        compare_all(sc, g, 'RV.', 'QV.', 'validity flags of the copy')
        if ws and how != 'SA':
            compare_all(sc, g, 'BS0.', 'AS0.', 'built-in workspace right after copying (deep copy of the source\'s)')
            compare_all(sc, g, 'BS1.', 'AS0.', 'built-in workspace of the copy after the later source operations')
        elif not ws and how in ('CC', 'ASn', 'ASw'):
            sc.int_eq('copy of a source without built-in workspace has none either', 'BS0.null', 1)
        out.append(sc)
    return out


def build_script(t, post):
    o, d, tm, sm, ws, how = t['order'], t['dim'], t['tm'], t['sm'], t['ws'], t['how']
    if True:
        if True:
            pass
        rng = C.rng_for(t['seed'], 'C15', o, d, tm, sm, ws, how, tuple(post))
        s = D.Script()
        dk, dc = s.var('dk', 0.8), s.var('dc', 0.2)
        dm = [s.var(n, v) for n, v in (('dm0', 1.2), ('dm1', 0.3), ('db', -0.4), ('dq', 0.1))]
        zk, zc = s.var('zk', 1.7), s.var('zc', 0.35)
        zm = [s.var(n, v) for n, v in (('zm0', 0.7), ('zm1', -0.5), ('zb', 0.9), ('zq', 0.2))]
        uk, uc = s.var('uk', 1.1), s.var('uc', 0.15)
        um = [s.var(n, v) for n, v in (('um0', 1.4), ('um1', 0.6), ('ub', 0.25), ('uq', 0.3))]
        uk2, uc2 = s.var('uk2', 0.9), s.var('uc2', 0.4)
        um2 = [s.var(n, v) for n, v in (('um0b', 0.8), ('um1b', -0.2), ('ubb', -0.6), ('uqb', 0.15))]
        rho = s.var('rho', 0.5)
        pa = X.OptProblem(s, 'a', o, d, 2, rng)
        pb = X.OptProblem(s, 'b', o, d, 3, rng)
        dof = X.dof_mode1(d) if sm else X.dof_ident(d)
        n = X.ref_layout(o, 2, d, FL_A, dof)[2]
        nz = X.ref_layout(o, 3, d, FL_B, X.dof_ident(d))[2]
        xs = pa.xvars(n)
        x0 = pa.xvars(n, prefix='w')
        xz = pb.xvars(nz, prefix='z')
        for tg, N_ in (('e0', 2), ('e1', 2), ('ez', 3)):
            X.declare_oracle(s, rng, tg, N_, 1, d)
        s.add('opt.tmap TMU', uk, uc)
        s.add('opt.smap SMU 1', *um)

        def defaults(z):
            s.add('opt.deftm', *((zk, zc) if z else (dk, dc)))
            s.add('opt.defsm 0', *(zm if z else dm))
        # an unrelated, differently configured optimizer Z (other default-map parameters, other problem, own workspace)
        defaults(True)
        s.add('opt.new Z')
        pb.init('Z', 'IZ')
        X.set_flags(s, 'Z', FL_B)
        s.add('opt.rho Z', rho)
        s.add('opt.steps Z 1')
        X.eval_cmd(s, 'Z', 'EZ', xz, tag='ez')
        # the source
        defaults(False)
        s.add('opt.new A')
        configure(s, 'A', pa, tm, sm, FL_A, rho)
        if ws:
            X.eval_cmd(s, 'A', 'EA0', x0, tag='e1')
            s.add('opt.spline A AS0')
        # the copy
        if how == 'CC':
            s.add('opt.copy B A')
            cp = 'B'
        elif how in ('ASw', 'ASn'):
            defaults(True)
            s.add('opt.new B')
            if how == 'ASw':
                # destination: fully configured differently (other problem, flags, resolution 3, energy weight, own workspace)
                pb.init('B', 'IB')
                X.set_flags(s, 'B', FL_B)
                s.add('opt.steps B 3')
                s.add('opt.rho B', zk)
                X.declare_oracle(s, rng, 'ezb', 3, 3, d)
                X.eval_cmd(s, 'B', 'EB0', xz, tag='ezb')
            # 'ASn': destination default-constructed (invalid, no problem, no workspace): every member must come from the source
            defaults(False)
            s.add('opt.assign B A')
            cp = 'B'
        else:
            s.add('opt.selfassign A')
            cp = 'A'
        s.add('opt.spline', cp, 'BS0')
        # later operations
        alive = True
        nul = False
        cflags = False
        src = {'N': 2, 'fl': FL_A, 'sm': sm}
        for p in post:
            if p == 'MSf':
                X.set_flags(s, 'A', FL_B)
                src['fl'] = FL_B
            elif p == 'MSi':
                pb.init('A', 'IA2')
                src['N'] = 3
            elif p == 'MSa':
                s.add('opt.assign A Z')
                src = {'N': 3, 'fl': FL_B, 'sm': 0}
            elif p == 'DS':
                s.add('opt.destroy A')
                alive = False
            elif p == 'UM':
                s.add('opt.tmap.set TMU', uk2, uc2)
                s.add('opt.smap.set SMU 1', *um2)
            elif p == 'EVs':
                # evaluate the source once more with its built-in workspace (whatever configuration it has by now)
                ns = X.ref_layout(o, src['N'], d, src['fl'], X.dof_mode1(d) if src['sm'] else X.dof_ident(d))[2]
                xsrc = [s.var('sx%d_%d' % (len(s.lines), j), round(rng.uniform(0.3, 1.4), 3)) for j in range(ns)]
                X.eval_cmd(s, 'A', 'ES%d' % len(s.lines), xsrc, tag='es%d' % len(s.lines))
            elif p == 'NUL':
                s.add('opt.settmap', cp, 'null')
                s.add('opt.setsmap', cp, 'null')
                nul = True
            elif p == 'CF':
                # the copy inherited a (possibly clean) layout cache: re-flagging the copy must re-derive its layout
                X.set_flags(s, cp, FL_B)
                cflags = True
        s.add('opt.spline', cp, 'BS1')
        # reference: a fresh optimizer configured the way the source was when it was copied
        defaults(False)
        s.add('opt.new F')
        configure(s, 'F', pa, tm, sm, FL_A, rho)
        if nul:
            s.add('opt.settmap F null')
            s.add('opt.setsmap F null')
        if cflags:
            X.set_flags(s, 'F', FL_B)
        nfin = X.ref_layout(o, 2, d, FL_B if cflags else FL_A, X.dof_ident(d) if (nul or not sm) else X.dof_mode1(d))[2]
        xfin = pa.xvars(nfin, prefix='f')
        for obj, pre in ((cp, 'R'), ('F', 'Q')):
            s.add('opt.dim', obj, pre + 'dim')
            s.add('opt.guess', obj, pre + 'G')
            X.eval_cmd(s, obj, pre + 'E', xfin, tag='e0')
            s.add('opt.spline', obj, pre + 'S')
            s.add('opt.valid', obj, pre + 'V')
        return s


@C.run_scenarios
def run_spline(t):
    o, d = t['order'], t['dim']
    tu = build.spline_tu(o, d)
    out = []
    for N1, N2 in ((2, 2), (2, 3), (3, 1)):
        rng = C.rng_for(t['seed'], 'C15s', o, d, N1, N2)
        s = D.Script()
        s.var('tl', 0.21)
        s.var('tg', 0.83)
        up = mk_upstream(s, d, rng)
        a = C.Problem(s, 'a', o, d, N1, rng)
        b = C.Problem(s, 'b', o, d, N2, rng)
        c = C.Problem(s, 'c', o, d, N2, rng)
        a.new(s, 'S')
        s.add('sp.energy S junkE')
        s.add('sp.copy Cc S')
        c.new(s, 'Dd')
        s.add('sp.egrad Dd junkA val')
        s.add('sp.assign Dd S')
        s.add('sp.selfassign S')
        b.update(s, 'S')            # mutate the source
        a.new(s, 'FA')
        b.new(s, 'FB')
        queries(s, 'Cc', 'cc_', a, rng, up)
        queries(s, 'Dd', 'dd_', a, rng, up)
        queries(s, 'FA', 'fa_', a, rng, up)
        c.update(s, 'Cc')           # mutate a copy: the source must not notice
        s.add('sp.destroy Dd')
        queries(s, 'S', 'ss_', b, rng, up)
        queries(s, 'FB', 'fb_', b, rng, up)
        sc = O.Scenario(ID, '%s N%d->N%d' % (t['name'], N1, N2), tu, s, timeout=t['timeout'])
        g = sc.dag
        compare_all(sc, g, 'cc_', 'fa_', 'copy-constructed spline after the source was updated')
        compare_all(sc, g, 'dd_', 'fa_', 'assigned spline after the source was updated')
        compare_all(sc, g, 'ss_', 'fb_', 'source after its copies were updated / destroyed')
        out.append(sc)
    return out


def validation(tier, seed):
    v = []
    for (tm, sm, how, post) in ((1, 0, 'ASw', ['MSa', 'NUL']), (0, 1, 'CC', ['UM', 'EVs'])):
        t = {'order': 5, 'dim': 2, 'tm': tm, 'sm': sm, 'ws': 1, 'how': how, 'seed': seed, 'timeout': 60, 'name': 'val'}
        v.append((build.opt_tu(5, 2, 'gen', 'gen'), build_script(t, post), None))
    return v
