"""C13 - a D-dimensional spline is the stack of D one-dimensional splines; sums; coordinate permutation."""
from fractions import Fraction
import z3
from enc import build, dag as D, real as R, ob as O
from . import common as C, grad as G

ID = 'C13'
LEVEL = C.LEVEL
EXPLANATION = C.EXPLANATION + '; the D-dimensional run and the D one-dimensional runs are recorded by different TUs and merged into one DAG (same input variables, structurally equal nodes shared) before comparison'
ASSUMPTIONS = C.ASSUMPTIONS
FUNCTIONS = ['constructors', 'getTrajectory().getCoefficients()', 'Segment::evaluate', 'getEnergy', 'getEnergyGrad', 'propagateGrad (septic: DIM<=3 and DIM>3 branches)']
OUTSIDE = ['rounding: coordinate-wise results are proved bit-identical (UF) where the recorded operations coincide, otherwise equal in exact arithmetic', 'N above the caps']


def caps(tier):
    if tier == 'quick':
        return {'dims': (2, 3, 4), 'N': (1, 2, 3), 'tall': {3: 3, 5: 2, 7: 2}}
    return {'dims': (2, 3, 4, 10), 'N': (1, 2, 3, 4, 5), 'tall': {3: 4, 5: 3, 7: 2}}


def bounds(tier):
    c = caps(tier)
    return {'D': list(c['dims']), 'N': list(c['N']), 'durations': 'all symbolic for N<=%s, else one grid vector' % c['tall'], 'upstream gradient': 'all entries symbolic',
            'permutation': 'cyclic shift and one transposition of the coordinates'}


def tus(tier):
    return [build.spline_tu(o, d) for o in C.ORDERS for d in (1,) + caps(tier)['dims']]


def tasks(tier, seed):
    c = caps(tier)
    to = 60 if tier == 'quick' else 600
    T = []
    for o in C.ORDERS:
        for d in c['dims']:
            for N in c['N']:
                if d == 10 and N > 2:
                    continue
                mode = 'all' if N <= c['tall'][o] else 'grid'
                durs = None
                if mode == 'grid':
                    g = C.duration_grid(o, N, tier, seed)
                    durs = [str(x) for x in g[3 % len(g)]]
                T.append({'name': 'stack o%d D%d N%d %s' % (o, d, N, mode), 'order': o, 'dim': d, 'N': N, 'mode': mode, 'durs': durs, 'seed': seed, 'timeout': to})
            T.append({'name': 'permute o%d D%d' % (o, d), 'fn': 'run_perm', 'order': o, 'dim': d, 'N': 2, 'seed': seed, 'timeout': to})
    return T


def script_for(o, d, N, coords, values, rng, with_gt=True, seglocal=None):
    s = D.Script()
    pr = C.Problem(s, '', o, len(coords), N, rng, coords=coords, values=values)
    pr.new(s, 'S')
    s.add('sp.coeffs S c')
    s.add('sp.energy S E')
    s.add('sp.egrad S A val')
    rows = N * C.NC[o]

    def mk(name, default):
        if name not in values:
            values[name] = default
        return s.var(name, values[name])
    g = [[mk('g%d_%d' % (r, dd), round(rng.uniform(-1, 1), 3)) for dd in coords] for r in range(rows)]
    gt = [mk('gt%d' % k, round(rng.uniform(-1, 1), 3)) if with_gt else '0' for k in range(N)]
    s.add('sp.prop S G val', rows, *[x for r in g for x in r], N, *gt)
    tl = mk('tl', 0.37)
    for i in range(N):
        for k in (0, 1, C.SD[o]):
            s.add('sp.seg S', i, tl, k, 'v%d_%d' % (i, k))
    return s, pr


@C.run_scenarios
def run_task(t):
    return one_stack(t, None)


def one_stack(t, values, suffix=''):
    o, d, N = t['order'], t['dim'], t['N']
    rng = C.rng_for(t['seed'], 'C13', o, d, N)
    values = dict(values or {})
    sD, prD = script_for(o, d, N, list(range(d)), values, rng)
    gD = D.run(build.spline_tu(o, d), sD.text())
    others = {}
    for dd in range(d):
        s1, _ = script_for(o, 1, N, [dd], values, rng, with_gt=(dd == 0))
        others['d%d' % dd] = D.run(build.spline_tu(o, 1), s1.text())
    m = D.merge(gD, others)
    kw = {}
    if t['mode'] == 'all':
        if o >= 5:
            kw['inv_vars'] = prD.h
    else:
        kw['subst'] = {h: Fraction(x) for h, x in zip(prD.h, t['durs'])}
    so = {h: float(v) for h, v in kw.get('subst', {}).items()}
    sc = O.Scenario(ID, t['name'] + suffix, build.spline_tu(o, d), sD, timeout=t['timeout'], enc_kwargs=kw, dag=m, shadow_override=so)
    sc.positive(prD.h)
    E = sc.enc
    rows = N * C.NC[o]
    for dd in range(d):
        p = 'd%d:' % dd
        for r in range(rows):
            sc.uf_eq('coefficient[%d,%d] == 1-D spline of coordinate %d' % (r, dd, dd), 'c.%d.%d' % (r, dd), p + 'c.%d.0' % r, real_fallback=True)
        for i in range(N):
            for k in (0, 1, C.SD[o]):
                sc.uf_eq('evaluation piece %d order %d coordinate %d == 1-D' % (i, k, dd), 'v%d_%d.%d' % (i, k, dd), p + 'v%d_%d.0' % (i, k), real_fallback=True)
        for key, nm in prD.inputs():
            if key[0] == 'h' or key[2] != dd:
                continue
            k1 = (key[0], key[1], 0)
            sc.uf_eq('propagated gradient [%s] == 1-D' % G.key_str(key), G.grad_out('G', key, N), p + G.grad_out('G', k1, N), real_fallback=True)
            sc.uf_eq('energy gradient [%s] == 1-D' % G.key_str(key), G.grad_out('A', key, N), p + G.grad_out('A', k1, N), real_fallback=True)
    sc.real_eq('energy == sum of the coordinate energies', 'E', E.sum([E.out('d%d:E' % dd) for dd in range(d)]))
    for k in range(N):
        sc.real_eq('propagated duration gradient %d == sum over coordinates' % k, 'G.T.%d' % k, E.sum([E.out('d%d:G.T.%d' % (dd, k)) for dd in range(d)]))
        sc.real_eq('energy duration gradient %d == sum over coordinates' % k, 'A.T.%d' % k, E.sum([E.out('d%d:A.T.%d' % (dd, k)) for dd in range(d)]))
    sc.path_forced()
    sc.side_conditions()
    return [sc]


@C.run_scenarios
def run_perm(t):
    """permuting the input coordinates permutes the outputs (bit-identical, UF)"""
    o, d, N = t['order'], t['dim'], t['N']
    out = []
    perms = [list(range(1, d)) + [0], [1, 0] + list(range(2, d))]
    for pi, perm in enumerate(perms):
        rng = C.rng_for(t['seed'], 'C13p', o, d, N)
        values = {}
        sA, prA = script_for(o, d, N, list(range(d)), values, rng)
        sB, prB = script_for(o, d, N, perm, values, rng)
        gA = D.run(build.spline_tu(o, d), sA.text())
        gB = D.run(build.spline_tu(o, d), sB.text())
        m = D.merge(gA, {'p': gB})
        sc = O.Scenario(ID, '%s perm%d' % (t['name'], pi), build.spline_tu(o, d), sA, timeout=t['timeout'], dag=m)
        sc.positive(prA.h)
        rows = N * C.NC[o]
        for j, src in enumerate(perm):
            for r in range(rows):
                sc.uf_eq('coefficient[%d] of output column %d == column %d of the unpermuted run' % (r, j, src), 'p:c.%d.%d' % (r, j), 'c.%d.%d' % (r, src))
            for key, nm in prA.inputs():
                if key[0] == 'h' or key[2] != src:
                    continue
                kp = (key[0], key[1], j)
                sc.uf_eq('propagated gradient [%s] permuted' % G.key_str(key), 'p:' + G.grad_out('G', kp, N), G.grad_out('G', key, N))
        sc.real_eq('energy invariant under coordinate permutation', 'E', sc.enc.out('p:E'))
        for k in range(N):
            sc.real_eq('duration gradient %d invariant under coordinate permutation' % k, 'G.T.%d' % k, sc.enc.out('p:G.T.%d' % k))
        out.append(sc)
    return out


def validation(tier, seed):
    v = []
    for o in C.ORDERS:
        rng = C.rng_for(seed, 'C13v', o)
        s, pr = script_for(o, 4, 3, [0, 1, 2, 3], {}, rng)
        v.append((build.spline_tu(o, 4), s, None))
    return v
