"""C05 - propagateGrad is the exact adjoint (J^T g) of the construction map; linear; history-free."""
from fractions import Fraction
import z3
from enc import build, dag as D, real as R, ob as O
from . import common as C, grad as G

ID = 'C05'
LEVEL = C.LEVEL
EXPLANATION = C.EXPLANATION + '; the Jacobian of the construction map is obtained by exact forward-mode AD of the recorded DAG inside the encoder'
ASSUMPTIONS = C.ASSUMPTIONS
FUNCTIONS = ['propagateGrad (value and reference overloads) -> propagateGradInternal', 'solveWithCachedLU', 'MultiplyStoredBlock*/SubMultiply* helpers',
             'septic DIM<=3 and DIM>3 branches', 'constructors/update (for the Jacobian)', 'getTrajectory().getCoefficients()']
OUTSIDE = ['rounding', 'N above the caps', 'T-all for N above the gradient caps (T-grid/T-line cover larger N for concrete duration vectors)']


def caps(tier):
    if tier == 'quick':
        return {'tall': {3: 3, 5: 2, 7: 2}, 'tall_dims': {3: (1, 2), 5: (1, 2), 7: (1, 4)}, 'gridN': 4, 'grid_dims': (1, 2, 3, 4), 'ngrid': 2}
    return {'tall': {3: 4, 5: 3, 7: 2}, 'tall_dims': {3: (1, 2, 3), 5: (1, 2, 3), 7: (1, 2, 3, 4)}, 'gridN': 6, 'grid_dims': (1, 2, 3, 4), 'ngrid': 6}


def bounds(tier):
    c = caps(tier)
    return {'T-all (all durations + all data + all upstream gradient entries symbolic)': 'N<=%s, DIM %s' % (c['tall'], {k: list(v) for k, v in c['tall_dims'].items()}),
            'T-grid (durations from the grid; gradients w.r.t. h_k by AD with h_k symbolic, substituted after differentiation)': 'N=1..%d, DIM %s, %d grid vectors' % (c['gridN'], list(c['grid_dims']), c['ngrid']),
            'upstream gradient': 'all 2sN x DIM + N entries symbolic (dense; sparse/unit vectors are instances)',
            'history': 'second propagateGrad with other upstream variables vs fresh object (UF); reference overload into a reused struct'}


def tus(tier):
    c = caps(tier)
    dims = set(c['grid_dims'])
    for v in c['tall_dims'].values():
        dims |= set(v)
    return [build.spline_tu(o, d) for o in C.ORDERS for d in sorted(dims)]


def tasks(tier, seed):
    c = caps(tier)
    to = 60 if tier == 'quick' else 600
    T = []
    for o in C.ORDERS:
        for d in c['tall_dims'][o]:
            for N in range(1, c['tall'][o] + 1):
                # one task per differentiation variable group keeps tasks short
                for grp in ('h', 'P', 'bc'):
                    T.append({'name': 'T-all o%d d%d N%d wrt-%s' % (o, d, N, grp), 'order': o, 'dim': d, 'N': N, 'mode': 'all', 'grp': grp, 'seed': seed, 'timeout': to})
        for d in c['grid_dims']:
            for N in range(1, c['gridN'] + 1):
                grid = C.duration_grid(o, N, tier, seed)
                pick = [grid[(3 + 2 * j) % len(grid)] for j in range(c['ngrid'])]
                for gi, g in enumerate(pick):
                    if d >= 3 and gi >= 1 and tier == 'quick':
                        continue
                    T.append({'name': 'T-grid o%d d%d N%d g%d %s data' % (o, d, N, gi, C.fmt_durs(g)), 'order': o, 'dim': d, 'N': N, 'mode': 'grid',
                              'durs': [str(x) for x in g], 'grp': 'data', 'seed': seed, 'timeout': to})
                    for k in range(N):
                        if d > 1 and tier == 'quick' and not (o == 7 and d == 4):
                            continue
                        T.append({'name': 'T-grid o%d d%d N%d g%d %s wrt-h%d' % (o, d, N, gi, C.fmt_durs(g), k), 'order': o, 'dim': d, 'N': N, 'mode': 'grid',
                                  'durs': [str(x) for x in g], 'grp': 'h', 'wrt_h': k, 'seed': seed, 'timeout': to})
        for d in (1, 3):
            T.append({'name': 'history o%d d%d' % (o, d), 'fn': 'run_history', 'order': o, 'dim': d, 'seed': seed, 'timeout': to})
    return T


def build_script(o, d, N, seed, second=False):
    rng = C.rng_for(seed, 'C05', o, d, N)
    s = D.Script()
    pr = C.Problem(s, '', o, d, N, rng)
    pr.new(s, 'S')
    s.add('sp.coeffs S c')
    rows = N * C.NC[o]
    g = [[s.var('g%d_%d' % (r, dd), round(rng.uniform(-1, 1), 3)) for dd in range(d)] for r in range(rows)]
    gt = [s.var('gt%d' % k, round(rng.uniform(-1, 1), 3)) for k in range(N)]
    s.add('sp.prop S G val', rows, *[x for r in g for x in r], N, *gt)
    return s, pr, g, gt


@C.run_scenarios
def run_task(t):
    o, d, N = t['order'], t['dim'], t['N']
    s, pr, g, gt = build_script(o, d, N, t['seed'])
    kw, post = G.mode_kwargs(t, pr)
    so = {h: float(v) for h, v in kw.get('subst', {}).items()}
    so.update({h: float(v) for h, v in post.items()})
    sc = O.Scenario(ID, t['name'], build.spline_tu(o, d), s, timeout=t['timeout'], enc_kwargs=kw, shadow_override=so)
    sc.post_subst = post
    sc.positive(pr.h)
    E = sc.enc
    dag = sc.dag
    rows = N * C.NC[o]
    sc.int_eq('times gradient length', 'G.nT', N)
    sc.int_eq('inner point gradient rows', 'G.nP', max(0, N - 1))
    for key, nm in pr.inputs():
        kind = key[0]
        grp = 'h' if kind == 'h' else ('P' if kind == 'P' else 'bc')
        if t['grp'] == 'data':
            if grp == 'h':
                continue
        elif t['grp'] != grp:
            continue
        if t.get('wrt_h') is not None and not (kind == 'h' and key[1] == t['wrt_h']):
            continue
        exp = R.VZERO
        for r in range(rows):
            for dd in range(d):
                dc = E.dnode(dag.outs['c.%d.%d' % (r, dd)], nm)
                if dc.c != 0:
                    exp = E.add(exp, E.mul(E.node(dag.varid[g[r][dd]]), dc))
        if kind == 'h':
            exp = E.add(exp, E.node(dag.varid[gt[key[1]]]))
        sc.real_eq('propagateGrad[%s] == sum_r gdC_r * dC_r/d(%s) (+ gdT)' % (G.key_str(key), G.key_str(key)), G.grad_out('G', key, N), exp)
    sc.path_forced()
    sc.side_conditions()
    return [sc]


@C.run_scenarios
def run_history(t):
    """UF: a second propagateGrad (other upstream values) on the same object, and the reference overload writing into a
    struct that previously held a gradient of another size, equal a fresh object's result node for node."""
    o, d = t['order'], t['dim']
    out = []
    for (N0, N, mode) in ((3, 2, 'dur'), (1, 3, 'dur'), (2, 1, 'dur'), (2, 2, 'dur'), (3, 3, 'tp'), (3, 3, 'dur'), (2, 3, 'tp'), (4, 4, 'tp')):
        rng = C.rng_for(t['seed'], 'C05h', o, d, N0, N, mode)
        s = D.Script()
        pr0 = C.Problem(s, 'a', o, d, N0, rng)
        pr = C.Problem(s, 'b', o, d, N, rng)
        rows0, rows = N0 * C.NC[o], N * C.NC[o]
        g0 = [s.var('u%d_%d' % (r, dd), round(rng.uniform(-1, 1), 3)) for r in range(rows0) for dd in range(d)]
        gt0 = [s.var('ut%d' % k, round(rng.uniform(-1, 1), 3)) for k in range(N0)]
        g1 = [s.var('w%d_%d' % (r, dd), round(rng.uniform(-1, 1), 3)) for r in range(rows) for dd in range(d)]
        gt1 = [s.var('wt%d' % k, round(rng.uniform(-1, 1), 3)) for k in range(N)]
        g2 = [s.var('x%d_%d' % (r, dd), round(rng.uniform(-1, 1), 3)) for r in range(rows) for dd in range(d)]
        gt2 = [s.var('xt%d' % k, round(rng.uniform(-1, 1), 3)) for k in range(N)]
        # history object: problem a, propagate, update to problem b, propagate twice (value, then reference overload into reused struct)
        pr0.new(s, 'H')
        s.add('sp.prop H Ha ref GS', rows0, *g0, N0, *gt0)
        if mode == 'tp':
            # the absolute-time-points overload, same or other segment count, other durations
            from .C10 import tp_names
            q = tp_names(s, 'b', N, rng)
            s.add('sp.update H tp', N + 1, *q, N + 1, *pr.flatP(), pr.bcname)
        else:
            pr.update(s, 'H')
        s.add('sp.prop H H1 val', rows, *g1, N, *gt1)
        s.add('sp.prop H H2 ref GS', rows, *g2, N, *gt2)
        s.add('sp.prop H H3 val', rows, *g1, N, *gt1)
        # fresh objects
        def fresh(nm):
            if mode == 'tp':
                s.add('sp.new', nm, 'tp', N + 1, *q, N + 1, *pr.flatP(), pr.bcname)
            else:
                pr.new(s, nm)
        fresh('F1')
        s.add('sp.prop F1 F1 val', rows, *g1, N, *gt1)
        fresh('F2')
        s.add('sp.prop F2 F2 val', rows, *g2, N, *gt2)
        sc = O.Scenario(ID, '%s N%d->N%d %s' % (t['name'], N0, N, mode), build.spline_tu(o, d), s, timeout=t['timeout'])
        for key, nm in pr.inputs():
            sc.uf_eq('after update: propagate == fresh [%s]' % G.key_str(key), G.grad_out('H1', key, N), G.grad_out('F1', key, N))
            sc.uf_eq('second call, reference overload into reused struct == fresh [%s]' % G.key_str(key), G.grad_out('H2', key, N), G.grad_out('F2', key, N))
            sc.uf_eq('repeat of the first call after another call == fresh [%s]' % G.key_str(key), G.grad_out('H3', key, N), G.grad_out('F1', key, N))
        sc.int_eq('reused struct resized (times)', 'H2.nT', N)
        sc.int_eq('reused struct resized (points)', 'H2.nP', max(0, N - 1))
        out.append(sc)
    return out


def validation(tier, seed):
    v = []
    for o in C.ORDERS:
        for d in (3, 4):
            s, pr, g, gt = build_script(o, d, 5 if d == 3 else 2, seed + 5)
            v.append((build.spline_tu(o, d), s, None))
    return v
