"""C03 - piecewise-polynomial evaluation: exact, right-continuous, route independent, hint post-state."""
from fractions import Fraction
import z3
from enc import build, dag as D, real as R, ob as O, paths as P
from . import common as C

ID = 'C03'
LEVEL = C.LEVEL
EXPLANATION = C.EXPLANATION + '; all feasible paths of findSegment (both overloads) are enumerated by re-execution with solver-checked decision prefixes'
ASSUMPTIONS = ['breakpoints strictly increasing (b_0 < ... < b_N), all values finite reals (NaN t is outside the Real order)',
               'hint values are concrete ints from the classes {INT_MIN,-2,-1,0..N-1,N,N+1,N+2,INT_MAX}; segment counts, coefficient counts and derivative orders are concrete and enumerated',
               '"one ulp either side of a breakpoint" is covered in the Real order by the open/closed boundary paths, not at the bit level',
               'UF (bit-identity) claims are about Eigen scalar paths']
FUNCTIONS = ['PPolyND::ConstIterator (all operators)', 'PPolyND<DIM,ORDER>::evaluate(t,k)', 'evaluate(t,&hint,k)', 'evaluate(vector,k)', 'Deriv-enum overloads', 'operator[] / at / begin..end -> Segment::evaluate',
             'derivative(k)', 'findSegment (linear, binary, hinted)', 'buildDerivativeCoefficients', 'derivativeFactor (static + dynamic tables)', 'evaluateSegmentHorner']
OUTSIDE = ['NaN/inf t', 'hint values other than the enumerated classes (the three integer comparisons in findSegment(t,hint) distinguish exactly these classes - read from the code, not solver-proved)',
           'segment counts other than those listed']
INT_MIN, INT_MAX = -2147483648, 2147483647
HARD_TIMEOUT = {'quick': 900, 'thorough': 3000}

TYPES = {'1dyn': (1, -1), '2dyn': (2, -1), '3f6': (3, 6), '3f8': (3, 8), '2f4': (2, 4)}


def configs(tier):
    if tier == 'quick':
        return [('1dyn', 1, 4), ('1dyn', 2, 1), ('1dyn', 3, 6), ('2dyn', 2, 9), ('2dyn', 3, 12), ('3f6', 2, 6), ('3f8', 3, 8), ('2f4', 4, 4),
                ('3f6', 3, 4), ('1dyn', 31, 4), ('1dyn', 32, 4), ('2dyn', 33, 9)]
    L = []
    for ty in TYPES:
        for N in (1, 2, 3, 4):
            for nc in (1, 4, 6, 8, 9, 12):
                pord = TYPES[ty][1]
                if pord > 0 and nc > pord:
                    continue
                L.append((ty, N, nc))
    L += [('1dyn', 31, 4), ('1dyn', 32, 4), ('1dyn', 33, 4), ('2dyn', 32, 9), ('2dyn', 33, 12), ('3f8', 32, 8), ('3f6', 33, 6)]
    return L


def bounds(tier):
    return {'(type, segments, coefficients)': [list(x) for x in configs(tier)], 'derivative orders': '0..num_coeffs+1 (quick: 0,1,degree,degree+1,degree+2)',
            'hint classes': 'INT_MIN,-2,-1,0..N-1 (all for N<=4, else {0,1,N/2,N-2,N-1}),N,N+1,N+2,INT_MAX', 'hinted call sequences': 'length 2 (quick, N<=3) / 3 (thorough, N<=3)',
            'path cap': 4096}


def tus(tier):
    return [build.ppoly_tu(*TYPES[ty]) for ty in sorted({c[0] for c in configs(tier)})]


def korders(nc, tier):
    if tier == 'quick':
        return sorted({0, 1, max(0, nc - 1), nc, nc + 1})
    return list(range(0, nc + 2))


def hints_for(N):
    mid = list(range(N)) if N <= 4 else sorted({0, 1, N // 2, N - 2, N - 1})
    return [INT_MIN, -2, -1] + mid + [N, N + 1, N + 2, INT_MAX]


def tasks(tier, seed):
    to = 60 if tier == 'quick' else 300
    T = []
    for (ty, N, nc) in configs(tier):
        for k in korders(nc, tier):
            T.append({'name': 'eval %s N%d nc%d k%d' % (ty, N, nc, k), 'ty': ty, 'N': N, 'nc': nc, 'k': k, 'seed': seed, 'timeout': to})
        if N <= 3:
            T.append({'name': 'hintseq %s N%d nc%d' % (ty, N, nc), 'fn': 'run_seq', 'ty': ty, 'N': N, 'nc': nc, 'len': 2 if tier == 'quick' else 3, 'seed': seed, 'timeout': to})
    for ty in ('2dyn', '3f6'):
        for N in (1, 3, 33):
            T.append({'name': 'iterators %s N%d' % (ty, N), 'fn': 'run_iter', 'ty': ty, 'N': N, 'seed': seed, 'timeout': to})
    return T


@C.run_scenarios
def run_iter(t):
    """every operator of the segment iterator (difference, comparison, pre/post increment and decrement, arrow, + n)"""
    ty, N = t['ty'], t['N']
    nc = 4
    s, b, c, dim, rng = base_script(ty, N, nc, t['seed'])
    s.add('pp.iterops P IT')
    tu = build.ppoly_tu(*TYPES[ty])
    sc = O.Scenario(ID, t['name'], tu, s, timeout=t['timeout'])
    Ns = range(N + 1) if N <= 3 else (0, 1, 16, N - 1, N)
    for i in Ns:
        for j in Ns:
            sc.int_eq('(begin+%d) - (begin+%d)' % (i, j), 'IT.diff.%d.%d' % (i, j), i - j)
            sc.int_eq('(begin+%d) == (begin+%d)' % (i, j), 'IT.eq.%d.%d' % (i, j), int(i == j))
            sc.int_eq('(begin+%d) != (begin+%d)' % (i, j), 'IT.ne.%d.%d' % (i, j), int(i != j))
    for i in (range(N) if N <= 3 else (0, 1, N - 1)):
        sc.int_eq('it++ returns the old position %d' % i, 'IT.postinc.old.%d' % i, i)
        sc.int_eq('it++ advances to %d' % (i + 1), 'IT.postinc.new.%d' % i, i + 1)
        sc.int_eq('it-- returns the old position %d' % (i + 1), 'IT.postdec.old.%d' % i, i + 1)
        sc.int_eq('it-- moves back to %d' % i, 'IT.postdec.new.%d' % i, i)
        sc.int_eq('++it', 'IT.preinc.%d' % i, i + 1)
        sc.int_eq('--it', 'IT.predec.%d' % i, i)
        sc.int_eq('(begin+%d)->index()' % i, 'IT.arrow.%d' % i, i)
    sc.int_eq('end - begin == segment count', 'IT.enddist', N)
    sc.int_eq('iterators of different trajectories compare unequal', 'IT.otherparent.eq', 0)
    sc.int_eq('iterators of different trajectories compare unequal (!=)', 'IT.otherparent.ne', 1)
    return [sc]


def base_script(ty, N, nc, seed):
    dim = TYPES[ty][0]
    rng = C.rng_for(seed, 'C03', ty, N, nc)
    s = D.Script()
    b, acc = [], rng.uniform(-1, 1)
    for i in range(N + 1):
        b.append(s.var('b%d' % i, round(acc, 3)))
        acc += rng.uniform(0.5, 1.5)
    c = [[s.var('c%d_%d' % (r, d), round(rng.uniform(-2, 2), 3)) for d in range(dim)] for r in range(N * nc)]
    s.add('pp.new P', N + 1, *b, N * nc, *[x for r in c for x in r], nc)
    return s, b, c, dim, rng


def spec_index(shadow_t, shadow_b, N):
    if N == 1:
        return 0
    for i in range(N - 1):
        if shadow_t < shadow_b[i + 1]:
            return i
    return N - 1


def in_piece(E, g, i, N):
    """z3 formula: t lies in the half-open interval of spec piece i (clamped at both ends)."""
    t = E.node(g.varid['t'])
    fs = []
    if i > 0:
        fs.append(E.le_formula(E.node(g.varid['b%d' % i]), t))
    if i < N - 1:
        fs.append(E.lt_formula(t, E.node(g.varid['b%d' % (i + 1)])))
    return z3.And(fs) if fs else z3.BoolVal(True)


@C.run_scenarios
def run_task(t):
    ty, N, nc, k = t['ty'], t['N'], t['nc'], t['k']
    s, b, c, dim, rng = base_script(ty, N, nc, t['seed'])
    tv = s.var('t', round(rng.uniform(-1, N + 1), 3))
    hints = hints_for(N)
    s.add('pp.eval P t', k, 'plain')
    s.add('pp.evalE P t', min(k, 6), 'plainE') if k <= 6 else None
    if k == 0:
        s.add('pp.evaldef P t plaindef')
    s.add('pp.batch P', k, 'bat', 1, 't')
    if k <= 6:
        s.add('pp.batchE P', k, 'batE', 1, 't')
    if k == 1:
        s.add('pp.deriv1 Q1 P')
        s.add('pp.eval Q1 t 0 dq1')
    for i in range(N if N <= 4 else 2):
        s.add('pp.segmeta P', i, 'sm%d' % i)
    s.add('pp.evalh P t null', k, 'hnull')
    for hi, h in enumerate(hints):
        s.add('int H%d %d' % (hi, h))
        s.add('pp.evalh P t H%d %d h%d' % (hi, k, hi))
    if k <= 6:
        s.add('int HE -1')
        s.add('pp.evalhE P t HE %d hE' % k)
    s.add('pp.deriv Q P', k)
    s.add('pp.eval Q t 0 dq')
    s.add('pp.meta Q qm')
    tu = build.ppoly_tu(*TYPES[ty])

    def assume(enc):
        return [enc.var('b%d' % i) < enc.var('b%d' % (i + 1)) for i in range(N)]
    ex = P.Explorer(tu, s, assume, max_paths=4096, timeout=t['timeout'])
    out = []
    classes = set()
    for (dec, g, enc0, sh) in ex.paths():
        # per-segment local-time routes for the piece this path uses (index read from a model of the path, then PROVED below)
        sb = [sh.get('b%d' % i, s.shadows['b%d' % i]) for i in range(N + 1)]
        st = sh.get('t', s.shadows['t'])
        i = spec_index(st, sb, N)
        classes.add(i)
        s2 = D.Script()
        s2.lines = list(s.lines)
        s2.shadows = dict(s.shadows)
        s2.add('let tl sub t b%d' % i)
        for how in ('idx', 'at', 'iter', 'arrow', 'back'):
            s2.add('pp.seg P', how, i, 'tl', k, 'seg_' + how)
        if k <= 6:
            s2.add('pp.segE P idx', i, 'tl', k, 'seg_E')
        g2 = D.run(tu, s2.text(dec, sh))
        if [f[:3] + [f[3]] for f in g2.path[:len(dec)]] != [f[:3] + [f[3]] for f in g.path]:
            pass
        sc = O.Scenario(ID, '%s path#%d piece%d' % (t['name'], len(out), i), tu, s2, decisions=dec, timeout=t['timeout'], dag=g2, shadow_override=sh)
        E = sc.enc
        sc.assume += assume(E)
        # the path condition pins the spec piece
        r = R.solve('piece', sc.base(True) + [z3.Not(in_piece(E, g2, i, N))], t['timeout'])
        sc.queries += 1
        sc._rec('path condition implies t in the half-open interval of piece %d (first/last piece clamped)' % i, 'real',
                'unsat' if r.status == 'unsat' else r.status, r.t, h=hash(tuple(dec)), confirmed=(r.status == 'sat'), model=r.model,
                note='the code takes one path (one piece) for a set of times that spans more than one specification piece',
                replay=(sc.write_replay('piece', {'kind': 'structural', 'note': 'path region spans several spec pieces; model=%s' % str(r.model)[:400], 'decisions': dec}) if r.status == 'sat' else None))
        # (1) semantics
        tloc = E.add(E.node(g2.varid['t']), E.node(g2.varid['b%d' % i]), -1)
        for d in range(dim):
            if k >= nc:
                spec = R.VZERO
            else:
                spec = C.polyval_spec(E, [E.node(g2.varid['c%d_%d' % (i * nc + m, d)]) for m in range(nc)], tloc, k)
            sc.real_eq('evaluate(t,%d)[%d] == derivative %d of piece %d at t-b_%d' % (k, d, k, i, i), 'plain.%d' % d, spec)
            # (2) routes identical (bit-identical: UF / node identity)
            routes = ['bat.0', 'hnull'] + ['h%d' % hi for hi in range(len(hints))] + ['dq'] + ['seg_' + h for h in ('idx', 'at', 'iter', 'arrow', 'back')]
            if k <= 6:
                routes += ['plainE', 'hE', 'seg_E', 'batE.0']
            if k == 1:
                routes.append('dq1')
            if k == 0:
                routes.append('plaindef')
            for rt in routes:
                sc.uf_eq('route %s == plain [%d]' % (rt, d), '%s.%d' % (rt, d), 'plain.%d' % d)
        # (3) hint post-state
        for hi, h in enumerate(hints):
            if k < nc:
                sc.int_eq('hint %d -> piece index after the call' % h, 'h%d.hint' % hi, i)
            else:
                sc.int_eq('hint %d untouched when k exceeds the degree' % h, 'h%d.hint' % hi, h)
        sc.int_eq('batch size', 'bat.n', 1)
        if len(out) == 0:
            # per-segment metadata (same on every path): start / end / duration / coefficient block / index
            for si in range(N if N <= 4 else 2):
                sc.uf_node_eq('segment %d startTime is breakpoint %d' % (si, si), 'sm%d.start' % si, g2.varid['b%d' % si])
                sc.uf_node_eq('segment %d endTime is breakpoint %d' % (si, si + 1), 'sm%d.end' % si, g2.varid['b%d' % (si + 1)])
                sc.real_eq('segment %d duration == b_%d - b_%d' % (si, si + 1, si), 'sm%d.dur' % si, E.add(E.node(g2.varid['b%d' % (si + 1)]), E.node(g2.varid['b%d' % si]), -1))
                sc.int_eq('segment %d index' % si, 'sm%d.index' % si, si)
                sc.int_eq('segment %d coefficient block rows' % si, 'sm%d.crows' % si, nc)
                for m in range(nc):
                    for d in range(dim):
                        sc.uf_node_eq('segment %d getCoeffs()[%d,%d] is the input coefficient' % (si, m, d), 'sm%d.c.%d.%d' % (si, m, d), g2.varid['c%d_%d' % (si * nc + m, d)])
        sc.int_eq('derivative trajectory initialised', 'qm.init', 1)
        sc.int_eq('derivative trajectory segments', 'qm.nseg', N)
        out.append(sc)
    fin = O.Scenario(ID, t['name'] + ' (exploration)', tu, s, timeout=t['timeout'], dag=D.run(tu, s.text()))
    if ex.complete:
        fin.check('path space fully explored (no cap hit, no unknown feasibility)', True)
    else:
        fin._rec('path space fully explored', 'explore', 'unknown', detail='runs=%d unknown=%d' % (ex.runs, ex.unknown))
    fin.check('every piece index 0..N-1 reached by some path', classes == set(range(N)), 'reached %s' % sorted(classes))
    fin.queries += ex.queries
    out.append(fin)
    return out


@C.run_scenarios
def run_seq(t):
    """sequences of hinted calls: the hint left by call j feeds call j+1; every result equals the plain evaluation."""
    ty, N, nc, L = t['ty'], t['N'], t['nc'], t['len']
    s, b, c, dim, rng = base_script(ty, N, nc, t['seed'])
    tu = build.ppoly_tu(*TYPES[ty])
    out = []
    for h0 in (0, N - 1, -1, N + 5, 'batch', 'batchE'):
        s1 = D.Script()
        s1.lines = list(s.lines)
        s1.shadows = dict(s.shadows)
        ts = [s1.var('t%d' % j, round(rng.uniform(-0.5, N + 0.5), 3)) for j in range(L)]
        if isinstance(h0, str):
            # one multi-sample batch call over the same arbitrary (unsorted, possibly breakpoint-exact) times: element j
            # must be the plain evaluation of sample j whatever the earlier samples of the batch were
            for j in range(L):
                s1.add('pp.eval P t%d 0 p%d' % (j, j))
            s1.add('pp.%s P 0 bq' % h0, L, *['t%d' % j for j in range(L)])
        else:
            s1.add('int H %d' % h0)
            for j in range(L):
                s1.add('pp.eval P t%d 0 p%d' % (j, j))
                s1.add('pp.evalh P t%d H 0 q%d' % (j, j))

        def assume(enc):
            return [enc.var('b%d' % i) < enc.var('b%d' % (i + 1)) for i in range(N)]
        ex = P.Explorer(tu, s1, assume, max_paths=4096, timeout=t['timeout'])
        n = 0
        for (dec, g, enc0, sh) in ex.paths():
            sc = O.Scenario(ID, '%s h0=%s path#%d' % (t['name'], h0, n), tu, s1, decisions=dec, timeout=t['timeout'], dag=g, shadow_override=sh)
            n += 1
            sc.assume += assume(sc.enc)
            if isinstance(h0, str):
                sc.int_eq('batch length', 'bq.n', L)
                for j in range(L):
                    for d in range(dim):
                        sc.uf_eq('batch element %d == plain evaluation of sample %d [%d]' % (j, j, d), 'bq.%d.%d' % (j, d), 'p%d.%d' % (j, d))
                out.append(sc)
                continue
            for j in range(L):
                sb = [sh.get('b%d' % i, s1.shadows['b%d' % i]) for i in range(N + 1)]
                i = spec_index(sh.get('t%d' % j, s1.shadows['t%d' % j]), sb, N)
                for d in range(dim):
                    sc.uf_eq('call %d: hinted == plain [%d]' % (j, d), 'q%d.%d' % (j, d), 'p%d.%d' % (j, d))
                # hint equals the piece the PLAIN route provably uses on this path
                E = sc.enc
                tj = E.node(g.varid['t%d' % j])
                fs = []
                if i > 0:
                    fs.append(E.le_formula(E.node(g.varid['b%d' % i]), tj))
                if i < N - 1:
                    fs.append(E.lt_formula(tj, E.node(g.varid['b%d' % (i + 1)])))
                if fs:
                    r = R.solve('piece', sc.base(True) + [z3.Not(z3.And(fs))], t['timeout'])
                    sc.queries += 1
                    sc._rec('call %d: path pins piece %d' % (j, i), 'real', 'unsat' if r.status == 'unsat' else r.status, r.t, h=hash((tuple(dec), j)), confirmed=(r.status == 'sat'),
                            note='path region spans several spec pieces',
                            replay=(sc.write_replay('piece', {'kind': 'structural', 'note': 'path region spans several spec pieces', 'decisions': dec}) if r.status == 'sat' else None))
                sc.int_eq('call %d: hint == piece index' % j, 'q%d.hint' % j, i)
            out.append(sc)
        fin = O.Scenario(ID, '%s h0=%s (exploration)' % (t['name'], h0), tu, s1, timeout=t['timeout'], dag=D.run(tu, s1.text()))
        if ex.complete:
            fin.check('path space fully explored', True)
        else:
            fin._rec('path space fully explored', 'explore', 'unknown', detail='runs=%d unknown=%d' % (ex.runs, ex.unknown))
        fin.queries += ex.queries
        out.append(fin)
    return out


def validation(tier, seed):
    v = []
    for (ty, N, nc) in (('3f6', 3, 6), ('2dyn', 33, 9), ('1dyn', 2, 1)):
        s, b, c, dim, rng = base_script(ty, N, nc, seed + 1)
        s.var('t', 1.234)
        for k in (0, 1, 2):
            s.add('pp.eval P t', k, 'plain%d' % k)
        s.add('int H 0')
        s.add('pp.evalh P t H 0 hh')
        v.append((build.ppoly_tu(*TYPES[ty]), s, None))
    return v
