"""C01 - splines interpolate every waypoint and honour the boundary states; time bookkeeping; entry routes."""
from fractions import Fraction
from enc import build, dag as D, real as R, ob as O
from . import common as C

ID = 'C01'
LEVEL = C.LEVEL
EXPLANATION = C.EXPLANATION
ASSUMPTIONS = C.ASSUMPTIONS
FUNCTIONS = ['CubicSplineND/QuinticSplineND/SepticSplineND<DIM>: both constructors, both update overloads',
             'convertTimePointsToSegments', 'updateCumulativeTimes', 'precomputeTimePowers', 'precomputePointDiffs',
             'solveSpline/computeLUAndSolve', 'solveQuintic/solveInternalDerivatives', 'solveSepticSpline', 'Inverse2x2/Inverse3x3 + block helpers',
             'initializePPoly -> PPolyND::update/initializeInternal', 'PPolyND::evaluate(t,k) -> findSegment, evaluateSegmentHorner',
             'PPolyND::Segment::evaluate', 'BoundaryConditions 2/4/6-argument constructors',
             'getStartTime/getEndTime/getDuration/getNumSegments/getCumulativeTimes/getTimeSegments']
OUTSIDE = ['floating-point rounding (C18)', 'N above the stated caps', 'DIM other than those listed', 'NaN/inf inputs']


def caps(tier):
    if tier == 'quick':
        return {'tall': {3: 4, 5: 3, 7: 2}, 'tgridN': 5, 'dims_all': (1, 2), 'dims_grid': (1, 2, 3), 'tline': {3: 5, 5: 4, 7: 3}}
    return {'tall': {3: 6, 5: 4, 7: 3}, 'tgridN': 10, 'dims_all': (1, 2, 3), 'dims_grid': (1, 2, 3, 4, 10), 'tline': {3: 6, 5: 5, 7: 4}}


def bounds(tier):
    c = caps(tier)
    return {'T-all (all durations symbolic, h>0)': 'N<=%s per order, DIM in %s' % (c['tall'], list(c['dims_all'])),
            'T-line (one symbolic duration, every position)': 'N<=%s, DIM 1' % c['tline'],
            'T-grid (concrete rational duration vectors of DESIGN s4.2, all data symbolic)': 'N=1..%d, DIM in %s' % (c['tgridN'], list(c['dims_grid'])),
            'solver timeout per query': '60 s quick / 600 s thorough'}


def tus(tier):
    c = caps(tier)
    dims = sorted(set(c['dims_all']) | set(c['dims_grid']))
    return [build.spline_tu(o, d) for o in C.ORDERS for d in dims]


def tasks(tier, seed):
    c = caps(tier)
    T = []
    to = 60 if tier == 'quick' else 600
    for o in C.ORDERS:
        for d in c['dims_all']:
            for N in range(1, c['tall'][o] + 1):
                T.append({'name': 'T-all o%d d%d N%d' % (o, d, N), 'order': o, 'dim': d, 'N': N, 'mode': 'all', 'seed': seed, 'timeout': to})
        for N in range(2, c['tline'][o] + 1):
            for pos in range(N):
                g = C.duration_grid(o, N, tier, seed)[3 % len(C.duration_grid(o, N, tier, seed))]
                T.append({'name': 'T-line o%d d1 N%d pos%d' % (o, N, pos), 'order': o, 'dim': 1, 'N': N, 'mode': 'line', 'pos': pos,
                          'durs': [str(x) for x in g], 'seed': seed, 'timeout': to})
        for d in c['dims_grid']:
            Ns = range(1, c['tgridN'] + 1)
            if d == 10:
                Ns = (1, 2, 3, 5)
            for N in Ns:
                grid = C.duration_grid(o, N, tier, seed)
                if d >= 3 and tier == 'quick':
                    grid = grid[:3]
                for gi, g in enumerate(grid):
                    T.append({'name': 'T-grid o%d d%d N%d g%d %s' % (o, d, N, gi, C.fmt_durs(g)), 'order': o, 'dim': d, 'N': N, 'mode': 'grid',
                              'durs': [str(x) for x in g], 'seed': seed, 'timeout': to})
    for o in C.ORDERS:
        for d in (1, 2):
            T.append({'name': 'routes o%d d%d' % (o, d), 'fn': 'run_routes', 'order': o, 'dim': d, 'seed': seed, 'timeout': to})
    return T


def build_script(o, d, N, seed):
    rng = C.rng_for(seed, 'C01', o, d, N)
    s = D.Script()
    pr = C.Problem(s, '', o, d, N, rng)
    pr.new(s, 'S')
    s.add('sp.coeffs S c')
    s.add('sp.meta S m')
    sd = C.SD[o]
    for i in range(N):
        s.add('sp.seg S', i, 0, 0, 'b%d' % i)
        s.add('sp.seg S', i, pr.h[i], 0, 'e%d' % i)
    for k in range(1, sd):
        s.add('sp.seg S', 0, 0, k, 'bs%d' % k)
        s.add('sp.seg S', N - 1, pr.h[N - 1], k, 'be%d' % k)
    # evaluation through the public global-time route exactly at every knot (forks in findSegment)
    for i in range(N + 1):
        s.add('bind K%d m.cum.%d' % (i, i))
        s.add('sp.eval S K%d 0 k%d' % (i, i))
    for k in range(1, sd):
        s.add('sp.eval S K0 %d ks%d' % (k, k))
        s.add('sp.eval S K%d %d ke%d' % (N, k, k))
    return s, pr


@C.run_scenarios
def run_task(t):
    o, d, N = t['order'], t['dim'], t['N']
    s, pr = build_script(o, d, N, t['seed'])
    kw = {}
    if t['mode'] == 'all':
        if o >= 5:
            kw['inv_vars'] = pr.h
    elif t['mode'] == 'grid':
        kw['subst'] = {h: Fraction(x) for h, x in zip(pr.h, t['durs'])}
    else:
        kw['subst'] = {h: Fraction(x) for i, (h, x) in enumerate(zip(pr.h, t['durs'])) if i != t['pos']}
    # shadows of substituted durations follow the substitution so that the shadow path is the real one
    so = {h: float(v) for h, v in kw.get('subst', {}).items()}
    sc = O.Scenario(ID, t['name'], build.spline_tu(o, d), s, timeout=t['timeout'], enc_kwargs=kw, shadow_override=so)
    E = sc.enc
    sc.positive(pr.h)
    g = sc.dag
    sd = C.SD[o]
    V = lambda nm: E.node(g.varid[nm]) if nm in g.varid else None
    # concrete structure
    sc.int_eq('segment count', 'm.nseg', N)
    sc.int_eq('trajectory segment count', 'm.tr.nseg', N)
    sc.int_eq('trajectory coefficient count', 'm.tr.ncoef', C.NC[o])
    sc.int_eq('initialised', 'm.init', 1)
    sc.int_eq('trajectory initialised', 'm.tr.init', 1)
    sc.int_eq('coefficient rows', 'c.rows', N * C.NC[o])
    sc.int_eq('number of knot times', 'm.ncum', N + 1)
    # path of the knot evaluations must be the only feasible one under h>0
    import z3
    pf = sc.path_formulas()
    r = R.solve('path forced', sc.base(False) + [z3.Not(z3.And(pf))] if pf else [z3.BoolVal(False)], t['timeout'])
    sc.queries += 1
    sc._rec('knot-evaluation path is the only feasible one for h>0', 'real', 'unsat' if r.status == 'unsat' else ('unknown' if r.status == 'unknown' else 'sat'),
            r.t, h=len(pf), confirmed=False, note='another findSegment path is feasible at a knot')
    # time bookkeeping
    sc.uf_node_eq('start time is the input', 'm.start', g.varid[pr.t0])
    acc = V(pr.t0)
    sc.real_eq('knot 0 == start', 'm.cum.0', acc)
    total = R.VZERO
    for i in range(N):
        hv = E.node(g.varid[pr.h[i]])
        acc = E.add(acc, hv)
        total = E.add(total, hv)
        sc.real_eq('knot %d == start + first %d durations' % (i + 1, i + 1), 'm.cum.%d' % (i + 1), acc)
        sc.uf_node_eq('duration %d reported as given' % i, 'm.seg.%d' % i, g.varid[pr.h[i]])
        sc.uf_eq('trajectory breakpoint %d == knot' % i, 'm.tr.bp.%d' % i, 'm.cum.%d' % i)
    sc.uf_eq('trajectory breakpoint %d == knot' % N, 'm.tr.bp.%d' % N, 'm.cum.%d' % N)
    sc.real_eq('end time', 'm.end', acc)
    sc.real_eq('duration', 'm.dur', total)
    sc.real_eq('trajectory duration', 'm.tr.dur', total)
    for dd in range(d):
        for i in range(N):
            sc.real_eq('piece %d at local 0 is waypoint %d [dim %d]' % (i, i, dd), 'b%d.%d' % (i, dd), V(pr.P[i][dd]))
            sc.real_eq('piece %d at local h_%d is waypoint %d [dim %d]' % (i, i, i + 1, dd), 'e%d.%d' % (i, dd), V(pr.P[i + 1][dd]))
        for i in range(N + 1):
            sc.real_eq('evaluate(knot %d) is waypoint %d [dim %d]' % (i, i, dd), 'k%d.%d' % (i, dd), V(pr.P[i][dd]))
        for k in range(1, sd):
            sc.real_eq('start derivative %d == boundary state [dim %d]' % (k, dd), 'bs%d.%d' % (k, dd), V(pr.bc_state('start', k)[dd]))
            sc.real_eq('end derivative %d == boundary state [dim %d]' % (k, dd), 'be%d.%d' % (k, dd), V(pr.bc_state('end', k)[dd]))
            sc.real_eq('evaluate(first knot, %d) == boundary state [dim %d]' % (k, dd), 'ks%d.%d' % (k, dd), V(pr.bc_state('start', k)[dd]))
            sc.real_eq('evaluate(last knot, %d) == boundary state [dim %d]' % (k, dd), 'ke%d.%d' % (k, dd), V(pr.bc_state('end', k)[dd]))
    sc.side_conditions()
    return [sc]


@C.run_scenarios
def run_routes(t):
    """all four entry routes give identical coefficients (UF); time-point bookkeeping; BC constructor routing."""
    o, d = t['order'], t['dim']
    out = []
    for N in (1, 2, 3):
        rng = C.rng_for(t['seed'], 'C01r', o, d, N)
        s = D.Script()
        pr = C.Problem(s, '', o, d, N, rng)
        q = []
        acc = C.dyadic(rng, -1, 1)
        for i in range(N + 1):
            q.append(s.var('q%d' % i, acc))      # dyadic shadows: shifted copies have bit-identical differences
            acc += C.dyadic(rng, 0.6, 1.7)
        for i in range(N):
            s.add('let dq%d sub q%d q%d' % (i, i + 1, i))
        P = pr.flatP()
        # re-update of a built object with the SAME durations but another start time, other points and boundary states
        pz = C.Problem(s, 'z', o, d, N, rng)
        s.add('sp.new S8 dur', N, *pr.h, N + 1, *pz.flatP(), pz.t0, pz.bcname)
        s.add('sp.update S8 dur', N, *pr.h, N + 1, *P, pr.t0, pr.bcname)
        s.var('shift', 4.0)
        for i in range(N + 1):
            s.add('let r%d add q%d shift' % (i, i))
        s.add('sp.new S9 tp', N + 1, *['r%d' % i for i in range(N + 1)], N + 1, *pz.flatP(), pz.bcname)
        s.add('sp.update S9 tp', N + 1, *q, N + 1, *P, pr.bcname)
        # overload switches on a built object: time points first then durations + start time, and the other way round
        s.add('sp.new S10 tp', N + 1, *['r%d' % i for i in range(N + 1)], N + 1, *pz.flatP(), pz.bcname)
        s.add('sp.update S10 dur', N, *pr.h, N + 1, *P, pr.t0, pr.bcname)
        s.add('sp.new S11 dur', N, *pz.h, N + 1, *pz.flatP(), pz.t0, pz.bcname)
        s.add('sp.update S11 tp', N + 1, *q, N + 1, *P, pr.bcname)
        s.add('sp.new S1 dur', N, *pr.h, N + 1, *P, pr.t0, pr.bcname)
        s.add('sp.default S4')
        s.add('sp.update S4 dur', N, *pr.h, N + 1, *P, pr.t0, pr.bcname)
        s.add('sp.new S2 tp', N + 1, *q, N + 1, *P, pr.bcname)
        s.add('sp.default S5')
        s.add('sp.update S5 tp', N + 1, *q, N + 1, *P, pr.bcname)
        s.add('sp.new S3 dur', N, *['dq%d' % i for i in range(N)], N + 1, *P, 'q0', pr.bcname)
        # default-argument boundary conditions (all zero)
        s.add('bc Z 0')
        s.add('sp.new S6 dur', N, *pr.h, N + 1, *P, pr.t0, '-')
        s.add('sp.new S7 dur', N, *pr.h, N + 1, *P, pr.t0, 'Z')
        for nm in ('S1', 'S2', 'S3', 'S4', 'S5', 'S6', 'S7', 'S8', 'S9', 'S10', 'S11'):
            s.add('sp.coeffs', nm, 'c' + nm)
        s.add('sp.meta S2 m2')
        s.add('sp.meta S5 m5')
        s.add('sp.meta S1 m1')
        s.add('sp.meta S8 m8')
        s.add('sp.meta S9 m9')
        s.add('sp.meta S10 m10')
        s.add('sp.meta S11 m11')
        # BC constructors
        z = ['0'] * d
        s.add('bc B2 2', *pr.bc['sv'], *pr.bc['ev'])
        s.add('bc B4 4', *pr.bc['sv'], *pr.bc['sa'], *pr.bc['ev'], *pr.bc['ea'])
        s.add('bc B6 6', *pr.bc['sv'], *pr.bc['sa'], *pr.bc['sj'], *pr.bc['ev'], *pr.bc['ea'], *pr.bc['ej'])
        for b in ('B2', 'B4', 'B6'):
            s.add('bc.out', b, 'o' + b)
        sc = O.Scenario(ID, '%s N%d' % (t['name'], N), build.spline_tu(o, d), s, timeout=t['timeout'])
        g = sc.dag
        rows = N * C.NC[o]
        for r in range(rows):
            for dd in range(d):
                sc.uf_eq('update(durations) == constructor(durations) c[%d,%d]' % (r, dd), 'cS4.%d.%d' % (r, dd), 'cS1.%d.%d' % (r, dd))
                sc.uf_eq('constructor(time points) == constructor(durations := differences) c[%d,%d]' % (r, dd), 'cS2.%d.%d' % (r, dd), 'cS3.%d.%d' % (r, dd), real_fallback=True)
                sc.uf_eq('update(time points) == constructor(time points) c[%d,%d]' % (r, dd), 'cS5.%d.%d' % (r, dd), 'cS2.%d.%d' % (r, dd))
                sc.uf_eq('update(same durations, other start/points/boundary) == constructor c[%d,%d]' % (r, dd), 'cS8.%d.%d' % (r, dd), 'cS1.%d.%d' % (r, dd))
                sc.uf_eq('update(time points shifted back) == constructor(time points) c[%d,%d]' % (r, dd), 'cS9.%d.%d' % (r, dd), 'cS2.%d.%d' % (r, dd))
                sc.uf_eq('time points, then update(durations) == constructor(durations) c[%d,%d]' % (r, dd), 'cS10.%d.%d' % (r, dd), 'cS1.%d.%d' % (r, dd))
                sc.uf_eq('durations, then update(time points) == constructor(time points) c[%d,%d]' % (r, dd), 'cS11.%d.%d' % (r, dd), 'cS2.%d.%d' % (r, dd))
                sc.uf_eq('defaulted boundary argument == zero boundary state c[%d,%d]' % (r, dd), 'cS6.%d.%d' % (r, dd), 'cS7.%d.%d' % (r, dd))
        E = sc.enc
        for key in ['start', 'end', 'dur'] + ['cum.%d' % i for i in range(N + 1)]:
            sc.uf_eq('re-update with the same durations and another start time: %s == constructor' % key, 'm8.' + key, 'm1.' + key, real_fallback=True)
            sc.uf_eq('built from time points, re-updated with durations and a start time: %s == constructor' % key, 'm10.' + key, 'm1.' + key, real_fallback=True)
        sc.uf_node_eq('m8 start time == given start time', 'm8.start', g.varid[pr.t0])
        sc.uf_node_eq('m10 start time == given start time', 'm10.start', g.varid[pr.t0])
        for m in ('m2', 'm5', 'm9', 'm11'):
            sc.int_eq(m + ' segment count', m + '.nseg', N)
            sc.uf_node_eq(m + ' start time == first time point', m + '.start', g.varid['q0'])
            for i in range(N + 1):
                sc.real_eq('%s knot %d == time point %d' % (m, i, i), '%s.cum.%d' % (m, i), E.node(g.varid['q%d' % i]))
            sc.real_eq(m + ' end == last time point', m + '.end', E.node(g.varid['q%d' % N]))
            sc.real_eq(m + ' duration == last - first', m + '.dur', E.add(E.node(g.varid['q%d' % N]), E.node(g.varid['q0']), -1))
        exp = {'B2': {'sv': 'sv', 'ev': 'ev'}, 'B4': {'sv': 'sv', 'sa': 'sa', 'ev': 'ev', 'ea': 'ea'},
               'B6': {f: f for f in C.BCF}}
        for b, mp in exp.items():
            for f in C.BCF:
                for dd in range(d):
                    key = 'o%s.%s.%d' % (b, f, dd)
                    if f in mp:
                        sc.uf_node_eq('%s routes %s' % (b, f), key, g.varid[pr.bc[mp[f]][dd]])
                    else:
                        sc.check('%s leaves %s zero' % (b, f), g.nodes[g.outs[key]] == [0, '0x0p+0'], 'field not zero')
        out.append(sc)
    return out


def validation(tier, seed):
    v = []
    for o in C.ORDERS:
        for (d, N) in ((3, 5), (1, 2)):
            s, pr = build_script(o, d, N, seed + 7)
            v.append((build.spline_tu(o, d), s, None))
    return v
