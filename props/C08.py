"""C08 - optimizer cost = time + waypoint + trapezoid integral + weighted energy; every sample handed to the running cost is right."""
from fractions import Fraction
import z3
from enc import build, dag as D, real as R, ob as O
from . import common as C, optc as X

ID = 'C08'
LEVEL = C.LEVEL
EXPLANATION = C.EXPLANATION + ('; user cost functors are ORACLES: every call returns fresh symbolic variables and records the arguments it received, so the obligations quantify over all functors; '
                               'sample arguments are compared with the specification with the published coefficients and decoded durations cut to free variables')
ASSUMPTIONS = ['orders, DIM, N, K, flags, map kind concrete and enumerated; decision vector, reference state, start time, energy weight, oracle values symbolic',
               'cut points: published coefficients of the workspace spline, decoded durations, reported energy (an identity that holds for free values of these holds for the real ones)',
               'constants k/K produced by run-time folding of k * (1.0/K) are read as the rational k/K (DESIGN s3.2)', 'exact real arithmetic']
FUNCTIONS = ['SplineOptimizer::evaluate (3-cost and 2-cost overloads)', 'calculateIntegralCost (per-segment lambda, segment start times, trapezoid weights)', 'Spline::computeBasisFunctions (cubic/quintic/septic; also checked row by row against d^k/dt^k t^m)',
             'Spline::getEnergy', 'getOptimalSpline', 'SerialExecutor']
OUTSIDE = ['K other than those listed', 'N > 3 (quick) / 4', 'floating-point rounding of k*(1/K)']
HARD_TIMEOUT = {'quick': 900, 'thorough': 3000}


def cfg(tier):
    if tier == 'quick':
        return {'orders': (3, 5, 7), 'dims': (1, 2), 'Ns': (1, 2, 3), 'Ks': (1, 2, 3, 5), 'K64': True, 'flags': [0, 0b11111111, 0b00010001, 0b01100110]}
    return {'orders': (3, 5, 7), 'dims': (1, 2, 3), 'Ns': (1, 2, 3, 4), 'Ks': (1, 2, 3, 4, 5, 6, 7, 8), 'K64': True, 'flags': [0, 0b11111111, 0b00010001, 0b01100110, 0b10101010, 0b01010101, 0b00001111, 0b11110000]}


def bounds(tier):
    c = cfg(tier)
    return {'orders': list(c['orders']), 'DIM': list(c['dims']), 'N': list(c['Ns']), 'K': list(c['Ks']) + ([64] if c['K64'] else []), 'flag settings': c['flags'], 'energy weight': 'symbolic > 0, symbolic <= 0, literal 0',
            'overloads': '3-cost and 2-cost', 'time map': 'QuadInvTimeMap (both branches), identity time map (N<=2)'}


def tus(tier):
    c = cfg(tier)
    return [build.opt_tu(o, d, 'quad', 'ident') for o in c['orders'] for d in c['dims']] + [build.opt_tu(o, 1, 'ident', 'ident') for o in c['orders']] + [build.spline_tu(o, 1) for o in c['orders']]


def tasks(tier, seed):
    c = cfg(tier)
    T = []
    for o in c['orders']:
        for d in c['dims']:
            for N in c['Ns']:
                for K in c['Ks']:
                    if tier == 'quick' and d == 2 and K not in (1, 3):
                        continue
                    T.append({'name': 'cost o%d d%d N%d K%d' % (o, d, N, K), 'order': o, 'dim': d, 'N': N, 'K': K, 'kind': 'ident', 'flags': c['flags'], 'seed': seed, 'timeout': 60})
        for N in (2, 3):
            # the same cost / sample-argument obligations when the segments are processed in DESCENDING order (first call on the fresh optimizer)
            T.append({'name': 'cost reversed-executor o%d d1 N%d K2' % (o, N), 'order': o, 'dim': 1, 'N': N, 'K': 2, 'kind': 'ident', 'flags': c['flags'][:2], 'ex': 'perm %d %s' % (N, ' '.join(str(i) for i in reversed(range(N)))), 'seed': seed, 'timeout': 60})
        if c['K64']:
            T.append({'name': 'cost o%d d1 N1 K64' % o, 'order': o, 'dim': 1, 'N': 1, 'K': 64, 'kind': 'ident', 'flags': c['flags'][:2], 'seed': seed, 'timeout': 60})
        for N in (1, 2):
            T.append({'name': 'cost tident o%d d1 N%d K2' % (o, N), 'order': o, 'dim': 1, 'N': N, 'K': 2, 'kind': 'tident', 'flags': c['flags'][:2], 'seed': seed, 'timeout': 60})
    for o in c['orders']:
        T.append({'name': 'basis rows o%d' % o, 'fn': 'run_basis', 'order': o, 'seed': seed, 'timeout': 60})
    return T


@C.run_scenarios
def run_basis(t):
    """computeBasisFunctions(t): row k, column m == d^k/dt^k t^m (the six rows the optimizer and the gradient code use)"""
    o = t['order']
    nc = C.NC[o]
    tu = build.spline_tu(o, 1)
    s = D.Script()
    s.var('t', 0.37)
    s.add('sp.basis t B')
    sc = O.Scenario(ID, t['name'], tu, s, timeout=t['timeout'])
    E = sc.enc
    tv = E.node(sc.dag.varid['t'])
    for k in range(6):
        for m in range(nc):
            ff = 1
            for j in range(k):
                ff *= (m - j)
            spec = E.scale(E.pow(tv, m - k), Fraction(ff)) if (m >= k and ff) else R.VZERO
            sc.real_eq('basis row %d (derivative order %d), column %d == %d t^%d' % (k, k, m, ff, max(m - k, 0)), 'B.%d.%d' % (k, m), spec)
    return [sc]


def check_eval(ID_, name, ev, tau_sign, timeout):
    """obligations of one recorded evaluation; returns list of Scenario"""
    o, d, N, K = ev.o, ev.d, ev.N, ev.K
    nc = C.NC[o]
    tu = ev.tu()
    g = D.run(tu, ev.s.text())
    three = ev.costs[1] == '3'
    # cuts: durations, coefficients, energy
    cuts = {}
    for i in range(N):
        cuts[g.outs['SP.seg.%d' % i]] = 'TT%d' % i
    for r in range(N * nc):
        for dd in range(d):
            if g.nodes[g.outs['SP.c.%d.%d' % (r, dd)]][0] != D.CONST:
                cuts.setdefault(g.outs['SP.c.%d.%d' % (r, dd)], 'cc%d_%d' % (r, dd))
    if 'EN' in g.outs:
        cuts.setdefault(g.outs['EN'], 'ENERGY')
    # coefficients that coincide with an input node (c0 = waypoint) must stay what they are for the decode part; cutting them is still sound
    sc = O.Scenario(ID_, name, tu, ev.s, timeout=timeout, dag=g, enc_kwargs={'cuts': cuts})
    E = sc.enc
    sc.assume += ev.domain(E, tau_sign) + [E.var('TT%d' % i) > 0 for i in range(N)]
    pr = ev.pr
    T = [E.out('SP.seg.%d' % i) for i in range(N)]
    t0 = E.node(g.varid[pr.t0])
    V = lambda nm: E.node(g.varid[nm])
    sc.path_forced('the recorded branch decisions are the only ones on this part of the domain')
    total = V('e0_tc')
    if three:
        total = E.add(total, V('e0_wc'))
    acc_start = t0
    for i in range(N):
        ncalls = sum(1 for k in g.ints if k.startswith('E@s%d_k' % i) and k.endswith('.i'))
        sc.check('segment %d: running cost called K+1 = %d times' % (i, K + 1), ncalls == K + 1, 'called %d times' % ncalls)
        for k in range(K + 1):
            n = 'e0_s%d_k%d' % (i, k)
            rn = 'E@s%d_k%d' % (i, k)
            if rn + '.t' not in g.outs:
                continue
            sc.int_eq('sample (%d,%d): segment index' % (i, k), rn + '.i', i)
            tl = E.scale(T[i], Fraction(k, K))
            sc.real_eq('sample (%d,%d): local time == (k/K) T_i' % (i, k), rn + '.t', tl)
            sc.real_eq('sample (%d,%d): global time == t0 + sum_{j<i} T_j + t' % (i, k), rn + '.tg', E.add(acc_start, tl))
            for q, an in enumerate(X.ARGN):
                for dd in range(d):
                    cf = [E.out('SP.c.%d.%d' % (i * nc + m, dd)) for m in range(nc)]
                    spec = C.polyval_spec(E, cf, tl, q) if q < nc else R.VZERO
                    sc.real_eq('sample (%d,%d): %s[%d] == derivative %d of the published piece at t' % (i, k, an, dd, q), '%s.%s.%d' % (rn, an, dd), spec)
            w = Fraction(1, 2) if k in (0, K) else Fraction(1)
            total = E.add(total, E.mul(E.scale(T[i], w / K), V(n + '_c')))
        acc_start = E.add(acc_start, T[i])
    if ev.rho_mode == 'pos':
        total = E.add(total, E.mul(V('rho'), E.out('EN')))
    sc.real_eq('cost == time cost + %strapezoid integral (K=%d) %s' % ('waypoint cost + ' if three else '', K, '+ rho * energy' if ev.rho_mode == 'pos' else '(no energy term: weight not positive)'), 'E.cost', total)
    # what the time / waypoint functors received
    sc.int_eq('time cost received N durations', 'E@Ts.n', N)
    for i in range(N):
        if 'E@Ts.%d' % i in g.outs:
            sc.uf_eq('time cost argument %d is the decoded duration' % i, 'E@Ts.%d' % i, 'SP.seg.%d' % i)
    if three:
        sc.int_eq('waypoint cost called exactly once', 'E@W.calls', 1)
        sc.int_eq('waypoint cost received N+1 rows', 'E@W.rows', N + 1)
        for i in range(N + 1):
            for dd in range(d):
                if 'E@W.%d.%d' % (i, dd) in g.outs:
                    sc.uf_eq('waypoint cost argument (%d,%d) is the decoded waypoint' % (i, dd), 'E@W.%d.%d' % (i, dd), 'SP.pts.%d.%d' % (i, dd))
    else:
        sc.check('2-cost overload: no waypoint functor call', 'E@W.rows' not in g.ints)
    return [sc]


@C.run_scenarios
def run_task(t):
    o, d, N, K, kind = t['order'], t['dim'], t['N'], t['K'], t['kind']
    out = []
    combos = []
    for fi, m in enumerate(t['flags']):
        for sign in (1, -1):
            rho_mode = ('pos', 'zero', 'neg', 'pos')[(fi * 2 + (sign > 0)) % 4]
            costs = 'o3' if (fi + (sign > 0)) % 3 else 'o2'
            combos.append((m, sign, rho_mode, costs))
    for (m, sign, rho_mode, costs) in combos:
        fl = X.flags_from_int(m)
        ev = X.EvalSetup(o, d, N, K, fl, kind, rho_mode, t['seed'], sign, costs=costs, key='C08', ex=t.get('ex', 'serial'))
        out += check_eval(ID, '%s flags=%s tau%s rho-%s %s' % (t['name'], X.flags_str(fl), '+' if sign > 0 else '-', rho_mode, costs), ev, sign, t['timeout'])
    return out


def validation(tier, seed):
    v = []
    for (o, d) in ((3, 2), (5, 1), (7, 2)):
        ev = X.EvalSetup(o, d, 2, 3, X.flags_from_int(0b01100110), 'ident', 'pos', seed, None, key='C08v')
        v.append((ev.tu(), ev.s, None))
    return v
