"""C12 - evaluation is schedule independent (and undisturbed by another evaluation interleaved at segment granularity)."""
import itertools
from fractions import Fraction
from enc import build, dag as D, real as R, ob as O
from . import common as C, optc as X

ID = 'C12'
LEVEL = C.LEVEL
EXPLANATION = C.EXPLANATION + ('; the executor is a permuting executor (every order of the per-segment tasks) or a nesting executor (a complete second evaluation with a private workspace runs between two segment '
                               'tasks of the first: a coarse interleaving of two threads); cost and gradient must be node-identical (bit-identical) to SerialExecutor with a fresh workspace; oracle functors')
ASSUMPTIONS = ['one recording thread: schedules are orders of the per-segment tasks and interleavings at segment-task granularity; DATA RACES UNDER REAL THREADS ARE NOT DECIDED (accesses to non-scalar optimizer state are invisible to the recorder)',
               'N, order, DIM, flags, K concrete and enumerated; all data and oracle outputs symbolic', 'UF = bit-identity on Eigen scalar paths']
FUNCTIONS = ['SplineOptimizer::evaluate with user Executor', 'calculateIntegralCost (per-segment lambda and the serial reductions after it)', 'SerialExecutor', 'OpenMPExecutor (serial fallback, compiled without -fopenmp)',
             'Workspace::resize', 'ensureLayoutCache (first call on a freshly configured optimizer vs after getDimension)']
OUTSIDE = ['thread-level data races (DESIGN s5/C12, s8)', 'interleavings below segment-task granularity', 'N > 6']
HARD_TIMEOUT = {'quick': 900, 'thorough': 3000}


def cfg(tier):
    if tier == 'quick':
        return {'cases': [(3, 1, 2), (5, 2, 3), (7, 1, 3), (5, 1, 4), (3, 2, 4), (7, 2, 2), (5, 2, 1)], 'sample': [(5, 1, 5)], 'K': 2}
    return {'cases': [(o, d, N) for o in (3, 5, 7) for d in (1, 2) for N in (1, 2, 3, 4)] + [(5, 1, 5), (3, 1, 5)], 'sample': [(o, 1, N) for o in (3, 5, 7) for N in (5, 6)], 'K': 2}


def bounds(tier):
    c = cfg(tier)
    return {'(order, DIM, N) with ALL permutations': [list(x) for x in c['cases']], '(order, DIM, N) with reversal, rotations and seeded permutations': [list(x) for x in c['sample']],
            'nested evaluation': 'second evaluation (same optimizer, private workspace, other decision vector) inserted after 0..N segment tasks', 'K': c['K'], 'flags': '11111111 and 00000000, energy weight > 0'}


def tus(tier):
    c = cfg(tier)
    return [build.opt_tu(o, d, 'quad', 'ident') for (o, d, N) in sorted(set(c['cases'] + c['sample']))]


def tasks(tier, seed):
    c = cfg(tier)
    T = []
    for (o, d, N) in c['cases']:
        T.append({'name': 'perm o%d d%d N%d' % (o, d, N), 'order': o, 'dim': d, 'N': N, 'K': c['K'], 'all': True, 'seed': seed, 'timeout': 60, 'thorough': tier == 'thorough' and N <= 4})
    for (o, d, N) in c['sample']:
        T.append({'name': 'perm-sample o%d d%d N%d' % (o, d, N), 'order': o, 'dim': d, 'N': N, 'K': c['K'], 'all': False, 'seed': seed, 'timeout': 60})
    return T


def build_script(o, d, N, K, fl, seed, perms, first_call_perm):
    rng = C.rng_for(seed, 'C12', o, d, N)
    s = D.Script()
    op = X.OptProblem(s, '', o, d, N, rng)
    pts, blocks, n = X.ref_layout(o, N, d, fl, X.dof_ident(d))
    xs = op.xvars(n)
    ys = op.xvars(n, prefix='y')
    rho = s.var('rho', 0.6)
    X.declare_oracle(s, rng, 'e0', N, K, d)
    X.declare_oracle(s, rng, 'e1', N, K, d)
    s.add('opt.new O')
    op.init('O')
    X.set_flags(s, 'O', fl)
    s.add('opt.rho O', rho)
    s.add('opt.steps O', K)
    runs = []
    if first_call_perm:
        # the very first evaluation on the freshly configured optimizer (lazy layout cache still dirty) uses a permuting executor
        s.add('opt.wsnew Wf')
        p0 = perms[-1]
        X.eval_cmd(s, 'O', 'Rf', xs, ws='Wf', ex='perm %d %s' % (N, ' '.join(map(str, p0))), tag='e0')
        runs.append(('Rf', 'first call, order %s' % (p0,)))
    else:
        s.add('opt.dim O dim0')
    s.add('opt.wsnew W0')
    X.eval_cmd(s, 'O', 'A', xs, ws='W0', ex='serial', tag='e0')
    s.add('opt.wsnew W1')
    X.eval_cmd(s, 'O', 'B', ys, ws='W1', ex='serial', tag='e1')
    for pi, p in enumerate(perms):
        s.add('opt.wsnew Wp%d' % pi)
        X.eval_cmd(s, 'O', 'P%d' % pi, xs, ws='Wp%d' % pi, ex='perm %d %s' % (N, ' '.join(map(str, p))), tag='e0')
        runs.append(('P%d' % pi, 'order %s' % (p,)))
    s.add('opt.wsnew Wo')
    X.eval_cmd(s, 'O', 'OMP', xs, ws='Wo', ex='omp', tag='e0')
    runs.append(('OMP', 'OpenMPExecutor (serial fallback)'))
    X.eval_cmd(s, 'O', 'INT', xs, ws='-', ex='serial', tag='e0')
    runs.append(('INT', 'built-in workspace'))
    nests = []
    for at in range(0, N + 1):
        s.add('opt.wsnew Wn%d' % at)
        s.add('opt.wsnew Wm%d' % at)
        s.add('opt.nestspec O NB%d' % at, n, *ys, 'Wm%d' % at, 'o3 e1', at)
        X.eval_cmd(s, 'O', 'NA%d' % at, xs, ws='Wn%d' % at, ex='nest', tag='e0')
        nests.append(at)
    return s, n, runs, nests


@C.run_scenarios
def run_task(t):
    o, d, N, K = t['order'], t['dim'], t['N'], t['K']
    rng = C.rng_for(t['seed'], 'C12p', o, d, N)
    if t['all']:
        perms = [list(p) for p in itertools.permutations(range(N))]
    else:
        perms = [list(reversed(range(N)))] + [list(range(r, N)) + list(range(r)) for r in range(1, N)]
        for _ in range(6):
            p = list(range(N))
            rng.shuffle(p)
            perms.append(p)
    out = []
    for fm in ((0b11111111, 0) if not t.get('thorough') else X.PAIRWISE):
        for first in (False, True):
            fl = X.flags_from_int(fm)
            s, n, runs, nests = build_script(o, d, N, K, fl, t['seed'], perms, first)
            sc = O.Scenario(ID, '%s flags=%s %s' % (t['name'], X.flags_str(fl), 'first-call-permuted' if first else 'after-getDimension'), build.opt_tu(o, d, 'quad', 'ident'), s, timeout=t['timeout'])
            g = sc.dag
            argsA = sorted(k[2:] for k in g.outs if k.startswith('A@'))
            argsB = sorted(k[2:] for k in g.outs if k.startswith('B@'))
            iargsA = sorted(k[2:] for k in g.ints if k.startswith('A@'))

            def same_args(pre, ref, names, inames, what):
                # every argument handed to the user functors is the same node as in the undisturbed serial evaluation
                miss = [a for a in names if pre + '@' + a not in g.outs]
                sc.check('functor calls with %s: same set of calls as serial' % what, not miss, 'missing %s' % miss[:4])
                for a in names:
                    if pre + '@' + a in g.outs:
                        sc.uf_eq('functor argument %s with %s == serial' % (a, what), pre + '@' + a, ref + '@' + a)
                for a in inames:
                    sc.int_eq('functor integer argument %s with %s == serial' % (a, what), pre + '@' + a, g.ints.get(ref + '@' + a))
            for (pre, what) in runs:
                sc.uf_eq('cost with %s == serial' % what, pre + '.cost', 'A.cost')
                for j in range(n):
                    sc.uf_eq('grad[%d] with %s == serial' % (j, what), '%s.g.%d' % (pre, j), 'A.g.%d' % j)
                same_args(pre, 'A', argsA, iargsA, what)
            for at in nests:
                same_args('NA%d' % at, 'A', argsA, iargsA, 'an evaluation interrupted after %d segment tasks' % at)
                same_args('NB%d' % at, 'B', argsB, [], 'the interrupting evaluation (after %d tasks)' % at)
                sc.uf_eq('cost of an evaluation interrupted after %d segment tasks by another evaluation == undisturbed' % at, 'NA%d.cost' % at, 'A.cost')
                sc.uf_eq('cost of the interrupting evaluation (after %d tasks) == undisturbed' % at, 'NB%d.cost' % at, 'B.cost')
                for j in range(n):
                    sc.uf_eq('grad[%d] of an evaluation interrupted after %d segment tasks == undisturbed' % (j, at), 'NA%d.g.%d' % (at, j), 'A.g.%d' % j)
                    sc.uf_eq('grad[%d] of the interrupting evaluation (after %d tasks) == undisturbed' % (j, at), 'NB%d.g.%d' % (at, j), 'B.g.%d' % j)
            out.append(sc)
    return out


def validation(tier, seed):
    v = []
    for (o, d, N) in ((5, 2, 3), (3, 1, 2)):
        s, n, runs, nests = build_script(o, d, N, 2, X.flags_from_int(255), seed, [list(reversed(range(N)))], True)
        v.append((build.opt_tu(o, d, 'quad', 'ident'), s, None))
    return v
