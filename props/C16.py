"""C16 - invalid problems rejected, valid ones accepted, verdict reported coherently; PPolyND rejection paths and at()."""
import itertools
from fractions import Fraction
import z3
from enc import build, dag as D, real as R, ob as O, fp as FP
from . import common as C, optc as X

ID = 'C16'
LEVEL = C.LEVEL
EXPLANATION = ('bounded symbolic execution of the unmodified /repo headers (scalar substitution double -> recording Sym); every finiteness test and every comparison with the one-millisecond '
               'threshold is a fork point; paths are enumerated by re-execution with forced decision prefixes whose feasibility is decided by z3 in the IEEE-754 binary64 theory (QF_FP: inputs range over '
               'all doubles including +-inf and NaN; durations of the time-point overload are fp.sub terms); on every path the verdict returned by the real code is compared with the specification '
               'predicate by a QF_FP query, and the coherence of isValid / operator bool / getLastError / checkValidity is compared as concrete values of that run')
ASSUMPTIONS = ['sizes (N, DIM, order, row counts) concrete and enumerated; all scalar inputs range over every binary64 value',
               'small configurations: ALL feasible paths; larger ones: all paths that differ from the all-valid path in at most 2 decisions (bounded flips) - stated per task in the obligation names',
               'threshold constant read from the recorded comparison node (0x1.0624dd2f1a9fcp-10)', 'PPolyND part and at(): concrete enumeration of shapes and index classes {INT_MIN,-1,0,N-1,N,N+1,INT_MAX}']
FUNCTIONS = ['SplineOptimizer::setInitState (durations / time points)', 'checkValidity', 'isValid', 'operator bool', 'getLastError', 'reportError', 'PPolyND constructor / update -> initializeInternal', 'isInitialized', 'getNumSegments', 'at']
OUTSIDE = ['N > 2 with DIM > 1 beyond 2 flipped decisions', 'index values other than the listed classes (symbolic ints are outside this technique)', 'builds with -ffast-math']
HARD_TIMEOUT = {'quick': 1200, 'thorough': 3600}
INT_MIN, INT_MAX = -2147483648, 2147483647
MINDUR = 1e-3


def cfg(tier):
    if tier == 'quick':
        return {'full': [(3, 1, 1, 'dur'), (5, 1, 1, 'dur'), (3, 1, 1, 'tp'), (3, 1, 2, 'dur')], 'flips': [(7, 1, 1, 'dur', 2), (5, 2, 2, 'dur', 2), (7, 2, 2, 'tp', 1), (3, 2, 3, 'tp', 2), (7, 1, 2, 'dur', 2)], 'seqlen': 2}
    return {'full': [(3, 1, 1, 'dur'), (5, 1, 1, 'dur'), (7, 1, 1, 'dur'), (3, 1, 1, 'tp'), (5, 1, 1, 'tp'), (3, 1, 2, 'dur'), (3, 2, 1, 'dur'), (3, 1, 2, 'tp')],
            'flips': [(7, 2, 2, 'dur', 2), (5, 2, 2, 'dur', 3), (7, 2, 2, 'tp', 2), (3, 2, 3, 'tp', 3), (5, 3, 2, 'dur', 2), (7, 1, 3, 'dur', 3)], 'seqlen': 3}


def bounds(tier):
    c = cfg(tier)
    return {'all paths (order, DIM, N, overload)': [list(x) for x in c['full']], 'paths within k flipped decisions of the all-valid path (order, DIM, N, overload, k)': [list(x) for x in c['flips']],
            'initialisation sequences': 'all sequences up to length %d over {valid(dur), valid(tp), NaN duration, short duration, inf waypoint, NaN end state, row mismatch, no segments, empty time points, time points not increasing, time points closer than 1 ms}' % c['seqlen'],
            'PPolyND': 'types <2,dyn> <3,6> <3,8> <2,4>; breakpoints 0..3; rows off by -1/0/+1; coefficient counts 1, ORDER, ORDER+1, ORDER+2; rejected update on a valid object; at() on 7 index classes'}


def tus(tier):
    c = cfg(tier)
    L = {(o, d) for (o, d, N, m) in c['full']} | {(o, d) for (o, d, N, m, k) in c['flips']} | {(5, 1), (3, 1), (7, 1)}
    return [build.opt_tu(o, d, 'quad', 'ident') for (o, d) in sorted(L)] + [build.ppoly_tu(2, -1), build.ppoly_tu(3, 6), build.ppoly_tu(3, 8), build.ppoly_tu(2, 4)]


def tasks(tier, seed):
    c = cfg(tier)
    T = []
    for (o, d, N, m) in c['full']:
        T.append({'name': 'verdict all-paths o%d d%d N%d %s' % (o, d, N, m), 'order': o, 'dim': d, 'N': N, 'mode': m, 'flips': None, 'seed': seed, 'timeout': 30})
    for (o, d, N, m, k) in c['flips']:
        T.append({'name': 'verdict <=%d-flips o%d d%d N%d %s' % (k, o, d, N, m), 'order': o, 'dim': d, 'N': N, 'mode': m, 'flips': k, 'seed': seed, 'timeout': 30})
    for o in (3, 5, 7):
        T.append({'name': 'sequences o%d' % o, 'fn': 'run_seq', 'order': o, 'len': c['seqlen'], 'seed': seed, 'timeout': 30})
    T.append({'name': 'sizes', 'fn': 'run_sizes', 'seed': seed, 'timeout': 30})
    for ty in ('2dyn', '3f6', '3f8', '2f4'):
        T.append({'name': 'ppoly ' + ty, 'fn': 'run_ppoly', 'ty': ty, 'seed': seed, 'timeout': 30})
    return T


# ---------------------------------------------------------------------- specification
def spec_formula(E, g, o, d, N, mode, names):
    """the statement's predicate as a QF_FP formula over the input variables"""
    def fin(x):
        return z3.Not(z3.Or(z3.fpIsInf(x), z3.fpIsNaN(x)))
    V = lambda nm: E.node(g.varid[nm])
    thr = z3.FPVal(MINDUR, FP.F64)
    cs = []
    if mode == 'dur':
        cs.append(fin(V(names['t0'])))
        durs = [V(h) for h in names['h']]
    else:
        cs.append(fin(V(names['tp'][0])))
        durs = [z3.fpSub(FP.RNE, V(names['tp'][i + 1]), V(names['tp'][i])) for i in range(N)]
    for hh in durs:
        cs.append(fin(hh))
        cs.append(z3.Not(z3.fpLT(hh, thr)))
    for row in names['P']:
        for nm in row:
            cs.append(fin(V(nm)))
    used = ['sv', 'ev'] + (['sa', 'ea'] if o >= 5 else []) + (['sj', 'ej'] if o >= 7 else [])
    for f in used:
        for nm in names['bc'][f]:
            cs.append(fin(V(nm)))
    return z3.And(cs)


def build_init_script(o, d, N, mode, rng, tag='', s=None, obj='O', pre='I', new=True):
    s = s if s is not None else D.Script()
    pr = C.Problem(s, tag, o, d, N, rng)
    names = {'h': pr.h, 'P': pr.P, 't0': pr.t0, 'bc': pr.bc}
    if new:
        s.add('opt.new', obj)
    if mode == 'dur':
        s.add('opt.init', obj, pre, 'dur', N, *pr.h, N + 1, *pr.flatP(), pr.t0, pr.bcname)
    else:
        q, acc = [], rng.uniform(-1, 1)
        for i in range(N + 1):
            q.append(s.var('%sq%d' % (tag, i), round(acc, 3)))
            acc += rng.uniform(0.6, 1.7)
        names['tp'] = q
        s.add('opt.init', obj, pre, 'tp', N + 1, *q, N + 1, *pr.flatP(), pr.bcname)
    s.add('opt.valid', obj, pre + 'V')
    return s, names


def coherence(sc, g, pre, ok, stored_ok=None):
    """stored_ok: verdict of the problem the object currently STORES, when that is not the one just supplied (the time-point
    overload returns before storing anything when it is given no time points: checkValidity() then still judges the problem
    stored earlier - the statement constrains the return value, the flag, the boolean conversion and the message only)"""
    sc.int_eq('isValid() == verdict', pre + 'V.isValid', ok)
    sc.int_eq('operator bool == verdict', pre + 'V.bool', ok)
    sc.int_eq('getLastError() empty iff the verdict is true', pre + 'V.errEmpty', ok)
    if stored_ok == 'open':
        return
    ck = ok if stored_ok is None else stored_ok
    sc.int_eq('checkValidity(&msg) judges the stored problem', pre + 'V.check', ck)
    sc.int_eq('checkValidity message empty iff it returns true', pre + 'V.msgEmpty', ck)
    sc.int_eq('checkValidity() without message argument agrees', pre + 'V.check0', ck)
    if stored_ok is None:
        sc.int_eq('getLastError() after checkValidity empty iff valid', pre + 'V.errEmpty2', ok)


@C.run_scenarios
def run_task(t):
    o, d, N, mode, maxflips = t['order'], t['dim'], t['N'], t['mode'], t['flips']
    tu = build.opt_tu(o, d, 'quad', 'ident')
    rng = C.rng_for(t['seed'], 'C16', o, d, N, mode)
    s, names = build_init_script(o, d, N, mode, rng)
    out = []
    work = [([], 0, None)]
    seen = set()
    complete = True
    npaths = 0
    nq = 0
    verdicts = {0: 0, 1: 0}
    while work:
        dec, flips, sh = work.pop()
        g = D.run(tu, s.text(dec, sh))   # shadows = a model of the forced prefix, so that the continuation is consistent with it
        key = tuple(f[3] for f in g.path)
        if key in seen:
            continue
        seen.add(key)
        E = FP.FPEnc(g)
        forms = [E.fork(f) for f in g.path]
        st, model, dt = FP.fp_solve(forms, t['timeout'])
        nq += 1
        if st == 'unsat':
            continue          # forced prefix + shadow continuation is not a feasible path
        if st == 'unknown':
            complete = False
            continue
        # alternatives
        for j in range(len(dec), len(g.path)):
            if maxflips is not None and flips + 1 > maxflips:
                break
            alt = forms[:j] + [E.fork(g.path[j], 1 - g.path[j][3])]
            st2, m2, dt2 = FP.fp_solve(alt, t['timeout'])
            nq += 1
            if st2 == 'sat':
                work.append((list(key[:j]) + [1 - key[j]], flips + 1, {k: v for k, v in m2.items() if k in s.shadows}))
            elif st2 == 'unknown':
                complete = False
        npaths += 1
        ok = g.ints['I.ok']
        verdicts[ok] = verdicts.get(ok, 0) + 1
        sc = O.Scenario(ID, '%s path#%d' % (t['name'], npaths), tu, s, decisions=list(key), timeout=t['timeout'], dag=g)
        spec = spec_formula(E, g, o, d, N, mode, names)
        st3, m3, dt3 = FP.fp_solve(forms + [spec if ok == 0 else z3.Not(spec)], t['timeout'])
        sc.queries += 1
        sc.solver_time += dt3
        nm = 'verdict %d == specification predicate on every input of this path' % ok
        if st3 == 'unsat':
            sc._rec(nm, 'fp', 'unsat', dt3, h=hash(key))
        elif st3 == 'unknown':
            sc._rec(nm, 'fp', 'unknown', dt3, detail='QF_FP gave no verdict')
        else:
            pt = {k: v for k, v in m3.items() if k in s.shadows}
            rec = {'confirmed': False, 'point': {k: D.f2hex(v) for k, v in pt.items()}}
            try:
                nd = D.run(tu, s.text(None, pt), native=True)
                rec['confirmed'] = nd.ints.get('I.ok') == ok
                rec['note'] = 'the real setInitState returns %d on an input for which the specification says %d' % (nd.ints.get('I.ok'), 1 - ok)
                if rec['confirmed']:
                    rec['replay'] = sc.write_replay(nm, {'kind': 'int', 'key': 'I.ok', 'expected': 1 - ok, 'shadows': pt})
            except Exception as e:
                rec['note'] = 'native run failed: %s' % e
            sc._rec(nm, 'fp', 'sat', dt3, **rec)
        coherence(sc, g, 'I', ok)
        out.append(sc)
    fin = O.Scenario(ID, t['name'] + ' (exploration)', tu, s, timeout=t['timeout'])
    fin.queries += nq
    if complete:
        fin.check('every feasible path%s explored (%d paths; valid verdict on %d)' % ('' if maxflips is None else ' within %d flips' % maxflips, npaths, verdicts.get(1, 0)), True)
    else:
        fin._rec('path space explored', 'explore', 'unknown', detail='QF_FP unknown on a feasibility query')
    fin.check('some explored path is accepted (vacuity guard: the all-valid inputs are reachable)', verdicts.get(1, 0) >= 1, 'accepted on %d paths' % verdicts.get(1, 0))
    out.append(fin)
    return out


# ---------------------------------------------------------------------- sequences on one object
STEPS = ['Vd', 'Vt', 'Ihnan', 'Ihsmall', 'Ipinf', 'Ibc', 'Irows', 'Inoseg', 'Iempty', 'Itdec', 'Itsmall']


def emit_step(s, o, d, step, idx, rng):
    """one setInitState call on object O; returns (prefix, expected verdict)"""
    N = 2
    tag = 's%d' % idx
    pre = 'I%d' % idx
    pr = C.Problem(s, tag, o, d, N, rng)
    ov = {}
    h, P = list(pr.h), pr.flatP()
    rows = N + 1
    exp = 1
    if step == 'Ihnan':
        ov[h[1]] = float('nan'); exp = 0
    elif step == 'Ihsmall':
        ov[h[0]] = 0.0005; exp = 0
    elif step == 'Ipinf':
        ov[P[-1]] = float('-inf'); exp = 0
    elif step == 'Ibc':
        ov[pr.bc['ev'][d - 1]] = float('nan'); exp = 0
    if step in ('Vd', 'Ihnan', 'Ihsmall', 'Ipinf', 'Ibc'):
        s.add('opt.init O', pre, 'dur', N, *h, rows, *P, pr.t0, pr.bcname)
    elif step == 'Irows':
        s.add('opt.init O', pre, 'dur', N, *h, rows - 1, *P[:(rows - 1) * d], pr.t0, pr.bcname); exp = 0
    elif step == 'Inoseg':
        s.add('opt.init O', pre, 'dur', 0, 1, *P[:d], pr.t0, pr.bcname); exp = 0
    elif step in ('Vt', 'Iempty', 'Itdec', 'Itsmall'):
        q, acc = [], rng.uniform(-1, 1)
        for i in range(N + 1):
            q.append(s.var('%sq%d' % (tag, i), round(acc, 3 if not (i == N and step == 'Itsmall') else 6)))
            # time-point overload with invalid spacing: the last point not after its predecessor / closer than one millisecond
            acc += rng.uniform(0.6, 1.7) if not (i == N - 1 and step in ('Itdec', 'Itsmall')) else (-0.25 if step == 'Itdec' else 0.0003)
        if step in ('Itdec', 'Itsmall'):
            exp = 0
        if step in ('Vt', 'Itdec', 'Itsmall'):
            s.add('opt.init O', pre, 'tp', N + 1, *q, rows, *P, pr.bcname)
        else:
            s.add('opt.init O', pre, 'tp', 0, rows, *P, pr.bcname); exp = 0
    s.add('opt.valid O', pre + 'V')
    return pre, exp, ov


@C.run_scenarios
def run_seq(t):
    o = t['order']
    d = 1
    tu = build.opt_tu(o, d, 'quad', 'ident')
    out = []
    seqs = []
    for n in range(1, t['len'] + 1):
        seqs += list(itertools.product(STEPS, repeat=n))
    for seq in seqs:
        rng = C.rng_for(t['seed'], 'C16s', o, tuple(seq))
        s = D.Script()
        s.add('opt.new O')
        steps = []
        so = {}
        for idx, st in enumerate(seq):
            pre, exp, ov = emit_step(s, o, d, st, idx, rng)
            so.update(ov)
            steps.append((pre, exp, st))
        sc = O.Scenario(ID, '%s seq=%s' % (t['name'], '-'.join(seq)), tu, s, timeout=t['timeout'], shadow_override=so)
        stored = 0
        for (pre, exp, st) in steps:
            sc.int_eq('step %s (%s): verdict' % (pre, st), pre + '.ok', exp)
            if st == 'Iempty':
                coherence(sc, sc.dag, pre, exp, stored_ok=stored)
            elif st in ('Itdec', 'Itsmall'):
                # only what the statement fixes (return value, flag, boolean conversion, message); whether the rejected problem is stored is left open
                coherence(sc, sc.dag, pre, exp, stored_ok='open')
                stored = 'open'
            else:
                coherence(sc, sc.dag, pre, exp)
                stored = exp
        out.append(sc)
    return out


@C.run_scenarios
def run_sizes(t):
    """size mismatches of every kind, all orders (concrete enumeration; data finite)"""
    out = []
    for o in (3, 5, 7):
        d = 1
        tu = build.opt_tu(o, d, 'quad', 'ident')
        for (nh, rows) in itertools.product((0, 1, 2, 3), (0, 1, 2, 3, 4)):
            rng = C.rng_for(t['seed'], 'C16z', o, nh, rows)
            s = D.Script()
            pr = C.Problem(s, '', o, d, 3, rng)
            s.add('opt.new O')
            s.add('opt.init O I dur', nh, *pr.h[:nh], rows, *pr.flatP()[:rows * d], pr.t0, pr.bcname)
            s.add('opt.valid O IV')
            sc = O.Scenario(ID, 'sizes o%d durations=%d waypoint-rows=%d' % (o, nh, rows), tu, s, timeout=t['timeout'])
            exp = 1 if (nh >= 1 and rows == nh + 1) else 0
            sc.int_eq('verdict == (at least one segment and rows == durations + 1)', 'I.ok', exp)
            coherence(sc, sc.dag, 'I', exp)
            out.append(sc)
        for (npts, rows) in itertools.product((0, 1, 2, 3), (1, 2, 3)):
            rng = C.rng_for(t['seed'], 'C16y', o, npts, rows)
            s = D.Script()
            pr = C.Problem(s, '', o, d, 3, rng)
            q = [s.var('q%d' % i, 0.3 + 0.9 * i) for i in range(4)]
            s.add('opt.new O')
            s.add('opt.init O I tp', npts, *q[:npts], rows, *pr.flatP()[:rows * d], pr.bcname)
            s.add('opt.valid O IV')
            sc = O.Scenario(ID, 'sizes o%d time-points=%d waypoint-rows=%d' % (o, npts, rows), tu, s, timeout=t['timeout'])
            exp = 1 if (npts >= 2 and rows == npts) else 0
            sc.int_eq('verdict == (at least two time points and rows == time points)', 'I.ok', exp)
            coherence(sc, sc.dag, 'I', exp, stored_ok=(0 if npts == 0 else None))
            out.append(sc)
    return out


# ---------------------------------------------------------------------- PPolyND
PTYPES = {'2dyn': (2, -1), '3f6': (3, 6), '3f8': (3, 8), '2f4': (2, 4)}


@C.run_scenarios
def run_ppoly(t):
    ty = t['ty']
    dim, pord = PTYPES[ty]
    tu = build.ppoly_tu(dim, pord)
    out = []
    base = pord if pord > 0 else 5
    ncs = sorted({1, 2, base, base + 1, base + 2})
    # default-constructed object
    s0 = D.Script()
    s0.add('pp.default P')
    s0.add('pp.meta P M')
    s0.add('pp.at P 0 A0')
    s0.add('pp.at P -1 A1')
    sc0 = O.Scenario(ID, 'ppoly %s default-constructed' % ty, tu, s0, timeout=t['timeout'])
    sc0.int_eq('default-constructed: not initialised', 'M.init', 0)
    sc0.int_eq('default-constructed: no segments', 'M.nseg', 0)
    sc0.int_eq('default-constructed: at(0) throws', 'A0.threw', 1)
    sc0.int_eq('default-constructed: at(-1) throws', 'A1.threw', 1)
    out.append(sc0)
    for nbp in (0, 1, 2, 3, 4):
        for nc in ncs:
            for drow in (-1, 0, 1):
                for how in ('new', 'update'):
                    N = max(nbp - 1, 0)
                    rows = N * nc + drow
                    if rows < 0:
                        continue
                    rng = C.rng_for(t['seed'], 'C16p', ty, nbp, nc, drow)
                    s = D.Script()
                    b = [s.var('b%d' % i, 0.2 + 0.8 * i) for i in range(nbp)]
                    c = [s.var('c%d_%d' % (r, dd), round(rng.uniform(-1, 1), 3)) for r in range(rows) for dd in range(dim)]
                    if how == 'update':
                        # a valid, evaluated object first
                        nc0 = min(4, base)
                        b0 = [s.var('ob%d' % i, 0.1 + i) for i in range(3)]
                        c0 = [s.var('oc%d_%d' % (r, dd), 0.5) for r in range(2 * nc0) for dd in range(dim)]
                        s.add('pp.new P 3', *b0, 2 * nc0, *c0, nc0)
                        s.add('pp.seg P idx 0 0.1 1 junk')
                        s.add('pp.update P', nbp, *b, rows, *c, nc)
                    else:
                        s.add('pp.new P', nbp, *b, rows, *c, nc)
                    s.add('pp.meta P M')
                    exp_ok = nbp >= 2 and drow == 0 and (pord < 0 or nc <= pord)
                    nseg = N if exp_ok else 0
                    idxs = [INT_MIN, -1, 0, nseg - 1, nseg, nseg + 1, INT_MAX]
                    for ii, ix in enumerate(idxs):
                        s.add('pp.at P', ix, 'A%d' % ii)
                    sc = O.Scenario(ID, 'ppoly %s %s breakpoints=%d coeffs=%d rows=%d' % (ty, how, nbp, nc, rows), tu, s, timeout=t['timeout'])
                    sc.int_eq('isInitialized == (>= 2 breakpoints, rows == segments*coefficients, coefficients <= fixed order)', 'M.init', 1 if exp_ok else 0)
                    sc.int_eq('segment count', 'M.nseg', nseg)
                    for ii, ix in enumerate(idxs):
                        thr = 0 if (0 <= ix < nseg) else 1
                        sc.int_eq('at(%d) %s' % (ix, 'throws std::out_of_range' if thr else 'returns the segment'), 'A%d.threw' % ii, thr)
                        if not thr:
                            sc.int_eq('at(%d) refers to segment %d' % (ix, ix), 'A%d.index' % ii, ix)
                    out.append(sc)
    return out


def validation(tier, seed):
    v = []
    rng = C.rng_for(seed, 'C16v')
    s, names = build_init_script(5, 2, 2, 'dur', rng)
    v.append((build.opt_tu(5, 2, 'quad', 'ident'), s, None))
    s2, names2 = build_init_script(3, 1, 1, 'tp', rng)
    v.append((build.opt_tu(3, 1, 'quad', 'ident'), s2, None))
    return v
