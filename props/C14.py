"""C14 - time shift, translation, data scaling, time scaling, time reversal."""
from fractions import Fraction
import z3
from enc import build, dag as D, real as R, ob as O
from . import common as C, grad as G

ID = 'C14'
LEVEL = C.LEVEL
EXPLANATION = C.EXPLANATION
ASSUMPTIONS = C.ASSUMPTIONS + ['shift, translation vector and scale factors are symbolic (scale factors > 0 for time, != 0 not needed for data)']
FUNCTIONS = ['constructors', 'getCumulativeTimes', 'getTrajectory().getCoefficients()', 'Segment::evaluate', 'getEnergy', 'getEnergyGrad']
OUTSIDE = ['rounding ("powers of two give exact relations" is an IEEE-level statement, not decided here)', 'N above the caps']


def caps(tier):
    if tier == 'quick':
        return {'tall': {3: 3, 5: 2, 7: 1}, 'gridN': 4, 'dims': (1, 2, 4), 'ngrid': 2}
    return {'tall': {3: 4, 5: 3, 7: 2}, 'gridN': 6, 'dims': (1, 2, 3, 4), 'ngrid': 4}


def bounds(tier):
    c = caps(tier)
    return {'T-all': 'N<=%s' % c['tall'], 'T-grid': 'N<=%d, %d grid vectors' % (c['gridN'], c['ngrid']), 'DIM': list(c['dims']),
            'relations': 'shift, translation, data scale, time scale, reversal: coefficients/evaluations, energy, energy gradients'}


def tus(tier):
    return [build.spline_tu(o, d) for o in C.ORDERS for d in caps(tier)['dims']]


KINDS = ('shift', 'translate', 'scale', 'timescale', 'reverse')


def tasks(tier, seed):
    c = caps(tier)
    to = 60 if tier == 'quick' else 600
    T = []
    for o in C.ORDERS:
        for d in c['dims']:
            for N in range(1, c['gridN'] + 1):
                for kind in KINDS:
                    if N <= c['tall'][o]:
                        T.append({'name': '%s o%d d%d N%d T-all' % (kind, o, d, N), 'order': o, 'dim': d, 'N': N, 'kind': kind, 'mode': 'all', 'seed': seed, 'timeout': to})
                    if d > 1 and N > 3 and tier == 'quick':
                        continue
                    grid = C.duration_grid(o, N, tier, seed)
                    for gi in range(c['ngrid']):
                        g = grid[(3 + 2 * gi) % len(grid)]
                        T.append({'name': '%s o%d d%d N%d g%d %s' % (kind, o, d, N, gi, C.fmt_durs(g)), 'order': o, 'dim': d, 'N': N, 'kind': kind,
                                  'mode': 'grid', 'durs': [str(x) for x in g], 'seed': seed, 'timeout': to})
    return T


GN = {'A': 'energy gradient', 'G': 'propagateGrad(energy partials)'}


def outputs(s, name, pre, N, o, hs):
    s.add('sp.coeffs', name, pre + 'c')
    s.add('sp.meta', name, pre + 'm')
    s.add('sp.energy', name, pre + 'E')
    s.add('sp.egrad', name, pre + 'A', 'val')
    s.add('sp.prop', name, pre + 'G', 'val', 'partials')      # propagateGrad of the object's own energy partials
    for i in range(N):
        for k in range(C.NC[o]):
            s.add('sp.seg', name, i, 0, k, '%sb%d_%d' % (pre, i, k))
            s.add('sp.seg', name, i, hs[i], k, '%se%d_%d' % (pre, i, k))


def build_script(o, d, N, kind, seed):
    rng = C.rng_for(seed, 'C14', o, d, N, kind)
    s = D.Script()
    pr = C.Problem(s, '', o, d, N, rng)
    pr.new(s, 'S')
    outputs(s, 'S', '', N, o, pr.h)
    P2 = pr.flatP()
    h2 = list(pr.h)
    t02 = pr.t0
    bc2 = {f: list(pr.bc[f]) for f in C.BCF}
    extra = {}
    if kind == 'shift':
        sh = s.var('shift', 3.25)
        s.add('let t0s add', pr.t0, sh)
        t02 = 't0s'
    elif kind == 'translate':
        v = [s.var('tr%d' % dd, round(rng.uniform(-3, 3), 2)) for dd in range(d)]
        P2 = []
        for i in range(N + 1):
            for dd in range(d):
                s.add('let P2_%d_%d add %s %s' % (i, dd, pr.P[i][dd], v[dd]))
                P2.append('P2_%d_%d' % (i, dd))
        extra['v'] = v
    elif kind == 'scale':
        lam = s.var('lam', 2.5)
        P2 = []
        for i in range(N + 1):
            for dd in range(d):
                s.add('let P2_%d_%d mul %s %s' % (i, dd, lam, pr.P[i][dd]))
                P2.append('P2_%d_%d' % (i, dd))
        for f in C.BCF:
            for dd in range(d):
                s.add('let B2_%s_%d mul %s %s' % (f, dd, lam, pr.bc[f][dd]))
                bc2[f][dd] = 'B2_%s_%d' % (f, dd)
    elif kind == 'timescale':
        mu = s.var('mu', 1.5)
        s.add('let imu div 1 mu')
        s.add('let imu2 mul imu imu')
        s.add('let imu3 mul imu2 imu')
        for i in range(N):
            s.add('let h2_%d mul mu %s' % (i, pr.h[i]))
            h2[i] = 'h2_%d' % i
        for f in C.BCF:
            pw = {'v': 'imu', 'a': 'imu2', 'j': 'imu3'}[f[1]]
            for dd in range(d):
                s.add('let B2_%s_%d mul %s %s' % (f, dd, pw, pr.bc[f][dd]))
                bc2[f][dd] = 'B2_%s_%d' % (f, dd)
    elif kind == 'reverse':
        P2 = [pr.P[N - i][dd] for i in range(N + 1) for dd in range(d)]
        h2 = [pr.h[N - 1 - i] for i in range(N)]
        for side, oth in (('s', 'e'), ('e', 's')):
            for q in 'vaj':
                for dd in range(d):
                    src = pr.bc[oth + q][dd]
                    if q in 'vj':
                        s.add('let B2_%s%s_%d neg %s' % (side, q, dd, src))
                        bc2[side + q][dd] = 'B2_%s%s_%d' % (side, q, dd)
                    else:
                        bc2[side + q][dd] = src
    s.add('bc B2 f', *[x for f in C.BCF for x in bc2[f]])
    s.add('sp.new S2 dur', N, *h2, N + 1, *P2, t02, 'B2')
    outputs(s, 'S2', 'x', N, o, h2)
    # the same transformation applied by re-updating the original object (both overloads of update exist; duration route here)
    s.add('sp.update S dur', N, *h2, N + 1, *P2, t02, 'B2')
    s.add('sp.coeffs S uc')
    s.add('sp.meta S um')
    s.add('sp.energy S uE')
    return s, pr, extra


@C.run_scenarios
def run_task(t):
    o, d, N, kind = t['order'], t['dim'], t['N'], t['kind']
    s, pr, extra = build_script(o, d, N, kind, t['seed'])
    kw = {}
    if t['mode'] == 'all':
        if o >= 5:
            kw['inv_vars'] = pr.h
    else:
        kw['subst'] = {h: Fraction(x) for h, x in zip(pr.h, t['durs'])}
    so = {h: float(v) for h, v in kw.get('subst', {}).items()}
    sc = O.Scenario(ID, t['name'], build.spline_tu(o, d), s, timeout=t['timeout'], enc_kwargs=kw, shadow_override=so)
    sc.positive(pr.h)
    E = sc.enc
    g = sc.dag
    sd, nc = C.SD[o], C.NC[o]
    rows = N * nc
    V = lambda nm: E.node(g.varid[nm])
    if kind == 'shift':
        for r in range(rows):
            for dd in range(d):
                sc.uf_eq('coefficient[%d,%d] independent of the start time' % (r, dd), 'xc.%d.%d' % (r, dd), 'c.%d.%d' % (r, dd))
        for i in range(N + 1):
            sc.real_eq('knot %d shifted by exactly the shift' % i, 'xm.cum.%d' % i, E.add(E.out('m.cum.%d' % i), V('shift')))
        sc.uf_eq('energy independent of the start time', 'xE', 'E')
        for key, nm in pr.inputs():
            for PA in ('A', 'G'):
                sc.uf_eq('%s [%s] independent of the start time' % (GN[PA], G.key_str(key)), G.grad_out('x' + PA, key, N), G.grad_out(PA, key, N))
    elif kind == 'translate':
        for r in range(rows):
            for dd in range(d):
                exp = E.out('c.%d.%d' % (r, dd))
                if r % nc == 0:
                    exp = E.add(exp, V(extra['v'][dd]))
                sc.real_eq('coefficient[%d,%d] under translation' % (r, dd), 'xc.%d.%d' % (r, dd), exp)
        sc.real_eq('energy invariant under translation', 'xE', E.out('E'))
        for key, nm in pr.inputs():
            for PA in ('A', 'G'):
                sc.real_eq('%s [%s] invariant under translation' % (GN[PA], G.key_str(key)), G.grad_out('x' + PA, key, N), E.out(G.grad_out(PA, key, N)))
    elif kind == 'scale':
        lam = V('lam')
        for r in range(rows):
            for dd in range(d):
                sc.real_eq('coefficient[%d,%d] scales with the data' % (r, dd), 'xc.%d.%d' % (r, dd), E.mul(lam, E.out('c.%d.%d' % (r, dd))))
        sc.real_eq('energy scales with the square', 'xE', E.mul(E.mul(lam, lam), E.out('E')))
        for key, nm in pr.inputs():
            f = E.mul(lam, lam) if key[0] == 'h' else lam
            for PA in ('A', 'G'):
                sc.real_eq('%s [%s] scales' % (GN[PA], G.key_str(key)), G.grad_out('x' + PA, key, N), E.mul(f, E.out(G.grad_out(PA, key, N))))
    elif kind == 'timescale':
        sc.positive(['mu'])
        imu = E.inv(V('mu'))
        for r in range(rows):
            for dd in range(d):
                sc.real_eq('coefficient[%d,%d] == c * mu^-m' % (r, dd), 'xc.%d.%d' % (r, dd), E.mul(E.pow(imu, r % nc), E.out('c.%d.%d' % (r, dd))))
        sc.real_eq('energy scales by mu^-(2s-1)', 'xE', E.mul(E.pow(imu, 2 * sd - 1), E.out('E')))
        for key, nm in pr.inputs():
            if key[0] == 'h':
                p = 2 * sd
            elif key[0] == 'P':
                p = 2 * sd - 1
            else:
                p = 2 * sd - 1 - key[1]
            for PA in ('A', 'G'):
                sc.real_eq('%s [%s] scales by mu^-%d' % (GN[PA], G.key_str(key), p), G.grad_out('x' + PA, key, N), E.mul(E.pow(imu, p), E.out(G.grad_out(PA, key, N))))
    elif kind == 'reverse':
        for i in range(N):
            j = N - 1 - i
            for k in range(nc):
                for dd in range(d):
                    exp = E.out('e%d_%d.%d' % (i, k, dd))
                    if k % 2:
                        exp = E.neg(exp)
                    sc.real_eq('reversed piece %d derivative %d at its start == (-1)^k * piece %d at its end [dim %d]' % (j, k, i, dd), 'xb%d_%d.%d' % (j, k, dd), exp)
        sc.real_eq('energy invariant under reversal', 'xE', E.out('E'))
        for key, nm in pr.inputs():
            kind_, i, dd = key
            if kind_ == 'h':
                k2 = ('h', N - 1 - i, None)
                sgn = 1
            elif kind_ == 'P':
                k2 = ('P', N - i, dd)
                sgn = 1
            else:
                k2 = ('end' if kind_ == 'start' else 'start', i, dd)
                sgn = -1 if i % 2 else 1
            for PA in ('A', 'G'):
                exp = E.out(G.grad_out(PA, key, N))
                if sgn < 0:
                    exp = E.neg(exp)
                sc.real_eq('%s [%s] mirrored' % (GN[PA], G.key_str(key)), G.grad_out('x' + PA, k2, N), exp)
    for r in range(rows):
        for dd in range(d):
            sc.uf_eq('re-updated object: coefficient[%d,%d] == fresh transformed object' % (r, dd), 'uc.%d.%d' % (r, dd), 'xc.%d.%d' % (r, dd))
    for i in range(N + 1):
        sc.uf_eq('re-updated object: knot %d == fresh transformed object' % i, 'um.cum.%d' % i, 'xm.cum.%d' % i)
        sc.uf_eq('re-updated object: trajectory breakpoint %d == fresh transformed object' % i, 'um.tr.bp.%d' % i, 'xm.tr.bp.%d' % i)
    for k in ('start', 'end', 'dur'):
        sc.uf_eq('re-updated object: %s == fresh transformed object' % k, 'um.' + k, 'xm.' + k)
    sc.uf_eq('re-updated object: energy == fresh transformed object', 'uE', 'xE')
    sc.path_forced()
    sc.side_conditions()
    return [sc]


def validation(tier, seed):
    v = []
    for o in C.ORDERS:
        for kind in ('timescale', 'reverse'):
            s, pr, _ = build_script(o, 2, 3, kind, seed + 2)
            v.append((build.spline_tu(o, 2), s, None))
    return v
