"""Shared scenario builders for the spline properties."""
import random
from fractions import Fraction
from enc import build, dag as D, real as R, ob as O

ORDERS = (3, 5, 7)
SD = {3: 2, 5: 3, 7: 4}      # s: order of the minimised derivative
NC = {3: 4, 5: 6, 7: 8}      # coefficients per segment
MAXRATIO = {3: 1000, 5: 20, 7: 4}
BCF = ['sv', 'sa', 'sj', 'ev', 'ea', 'ej']
LEVEL = 'other'
EXPLANATION = ('bounded symbolic execution of the unmodified /repo headers (scalar substitution double -> recording Sym, '
               'all feasible paths for concrete sizes) + SMT: each obligation is an (in)equality between recorded outputs and a '
               'specification term, decided by z3 (QF_NRA/QF_LRA nlsat for the exact-real reading, QF_UF/node identity for '
               'bit-identity claims); sat models are replayed against the native double build of the same harness')
ASSUMPTIONS = [
    'exact real arithmetic with literal constants read as the simplest rational that rounds to the double (DESIGN s3.2); nothing is claimed about rounding error',
    'sizes, flags, indices and history shapes are concrete and enumerated (bounds in coverage.bounds)',
    'Eigen scalar (non-SIMD) code paths; g++ 12.2 -O1 recording build, -O2 -ffp-contract=off native build',
    'durations h_i > 0 (Real-interpretation proofs assume nothing else about them)',
]


def rng_for(seed, *key):
    import zlib
    return random.Random(zlib.crc32(repr((seed,) + tuple(key)).encode()))   # stable across processes (str hashes are salted)


class Problem:
    """names of the symbolic inputs of one spline problem inside a script"""

    def __init__(self, s, tag, order, dim, N, rng, tp=False, scale=1.0, coords=None, values=None):
        """coords: coordinate labels used in the variable names (default 0..dim-1); values: name -> shadow (so that
        several scripts can share inputs)."""
        self.tag, self.order, self.dim, self.N = tag, order, dim, N
        co = list(coords) if coords is not None else list(range(dim))
        self.coords = co
        vals = values if values is not None else {}

        def mk(name, default):
            if name not in vals:
                vals[name] = default()
            return s.var(name, vals[name])
        self.h = [mk('%sh%d' % (tag, i), lambda: round(rng.uniform(0.6, 1.8) * scale, 3)) for i in range(N)]
        self.P = [[mk('%sp%d_%d' % (tag, i, d), lambda: round(rng.uniform(-2, 2), 3)) for d in co] for i in range(N + 1)]
        self.t0 = mk('%st0' % tag, lambda: round(rng.uniform(-1, 2), 3))
        self.bc = {f: [mk('%s%s_%d' % (tag, f, d), lambda: round(rng.uniform(-1, 1), 3)) for d in co] for f in BCF}
        self.values = vals
        self.bcname = tag + 'B'
        s.add('bc', self.bcname, 'f', *[x for f in BCF for x in self.bc[f]])
        self.tp = None

    def flatP(self):
        return [x for r in self.P for x in r]

    def new(self, s, name, cmd='sp.new'):
        s.add(cmd, name, 'dur', self.N, *self.h, self.N + 1, *self.flatP(), self.t0, self.bcname)

    def update(self, s, name):
        self.new(s, name, 'sp.update')

    def bc_state(self, side, k):
        """names of the boundary state of derivative order k (1=v,2=a,3=j) at 'start'/'end'"""
        f = ('s' if side == 'start' else 'e') + 'vaj'[k - 1]
        return self.bc[f]

    def inputs(self):
        """all real inputs the spline of this order depends on: (kind, index, dim) -> name"""
        sd = SD[self.order]
        out = []
        for k, h in enumerate(self.h):
            out.append((('h', k, None), h))
        for i, row in enumerate(self.P):
            for d, nm in enumerate(row):
                out.append((('P', i, d), nm))
        for side in ('start', 'end'):
            for k in range(1, sd):
                for d, nm in enumerate(self.bc_state(side, k)):
                    out.append(((side, k, d), nm))
        return out


def dyadic(rng, lo, hi, bits=4):
    q = 1 << bits
    return Fraction(rng.randint(int(lo * q), int(hi * q)), q)


def duration_grid(order, N, tier, seed):
    """T-grid: concrete exact rational duration vectors inside the well-scaled domain (DESIGN s4.2)."""
    rng = rng_for(seed, 'grid', order, N)
    R_ = Fraction(MAXRATIO[order])
    big = Fraction(2) if order != 3 else Fraction(10)
    small = big / min(R_, Fraction(20) if order == 3 else R_)
    G = []
    G.append([Fraction(1)] * N)
    G.append([Fraction(1, 10)] * N)
    G.append([Fraction(10)] * N)
    if N >= 2:
        for pos in sorted({0, N // 2, N - 1}):
            G.append([small if i == pos else big for i in range(N)])
            G.append([big if i == pos else small for i in range(N)])
        r = R_ ** Fraction(1, 1) if False else None
        # geometric ramp with total ratio <= MAXRATIO
        step = min(Fraction(2), Fraction(3, 2) if order == 7 else Fraction(2))
        ramp = [Fraction(1, 2) * step ** min(i, 2 if order == 7 else (4 if order == 5 else 9)) for i in range(N)]
        G.append(ramp)
        G.append(list(reversed(ramp)))
        G.append([small if i % 2 else big for i in range(N)])
    nrand = 2 if tier == 'quick' else 8
    for _ in range(nrand):
        lo, hi = (Fraction(1, 2), Fraction(2)) if order == 7 else (Fraction(1, 4), Fraction(4))
        G.append([dyadic(rng, lo, hi) or Fraction(1) for _ in range(N)])
    # dedupe, cap
    seen, out = set(), []
    for g in G:
        t = tuple(g)
        if t not in seen:
            seen.add(t)
            out.append(g)
    cap = 6 if tier == 'quick' else 24
    return out[:cap]


def subst_for(prob, durs):
    return {h: v for h, v in zip(prob.h, durs)}


def fmt_durs(durs):
    return '[' + ','.join(str(x) for x in durs) + ']'


def polyval_spec(enc, coeffs, t, k):
    """k-th derivative at local time t (Val) of the polynomial with Val coefficients (ascending powers)."""
    n = len(coeffs)
    acc = R.VZERO
    for m in range(n - 1, k - 1, -1):
        ff = 1
        for j in range(k):
            ff *= (m - j)
        acc = enc.add(enc.mul(acc, t), enc.scale(coeffs[m], Fraction(ff)))
    return acc


def cover_paths(fn, task, rounds=6):
    """Runs a task; where a single-path scenario finds that other paths are feasible on its domain (a data-dependent branch:
    a cache keyed on input equality, an early-out, ...), the task is re-run with shadow inputs taken from solver models of the
    not yet explored region until the explored path conditions provably cover the domain (or `rounds` re-runs are used up: then
    the coverage obligation is reported as unknown).  The obligations are checked on every explored path; only a failing
    obligation is a violation - an additional feasible path as such is not."""
    import z3
    scs = list(fn(task))
    pend = {}
    for sc in scs:
        recs = [r for r in sc.results if r.get('pathcover') and r['status'] == 'sat']
        if recs:
            pend[sc.base_name] = {'sc': sc, 'rec': recs[0], 'explored': [z3.And(sc.path_formulas())], 'model': recs[0].get('model'), 'status': 'unknown',
                                  'detail': 'not covered after %d re-runs on alternative paths' % rounds}
    for k in range(rounds):
        todo = [p for p in pend.values() if p['status'] == 'unknown' and p['model'] is not None]
        if not todo:
            break
        pt = todo[0]['sc'].point_from_model(todo[0]['model'])
        D.SHADOW_OVERRIDE.clear()
        D.SHADOW_OVERRIDE.update({kk: float(v) for kk, v in pt.items()})
        O.NAME_SUFFIX[0] = ' (alternative path %d)' % (k + 1)
        try:
            new = list(fn(task))
        except D.HarnessCrash:
            raise
        except Exception as e:
            todo[0]['detail'] = 'alternative path could not be rebuilt: %r' % (e,)
            todo[0]['model'] = None
            continue
        finally:
            D.SHADOW_OVERRIDE.clear()
            O.NAME_SUFFIX[0] = ''
        for s2 in new:
            p = pend.get(getattr(s2, 'base_name', None))
            if p is None or p['status'] != 'unknown':
                continue
            scs.append(s2)
            p['explored'].append(z3.And(s2.path_formulas()))
        for p in pend.values():
            if p['status'] != 'unknown' or p['model'] is None:
                continue
            r = R.solve('cover', p['sc'].base(False) + [z3.Not(f) for f in p['explored']], p['sc'].timeout)
            p['sc'].queries += 1
            if r.status == 'unsat':
                p['status'], p['detail'] = 'unsat', '%d paths cover the domain' % len(p['explored'])
            elif r.status == 'sat':
                p['model'] = r.model
            else:
                p['model'], p['detail'] = None, 'coverage query: ' + str(r.detail)
    for p in pend.values():
        rec = p['rec']
        rec['status'] = p['status']
        rec['name'] = rec['name'] + ' [more than one path is feasible: coverage by the explored paths]'
        rec.pop('confirmed', None)
        if p['status'] == 'unsat':
            rec['note'] = p['detail']
            rec['h'] = len(p['explored'])
        else:
            rec['detail'] = p['detail']
    return scs


def run_scenarios(fn):
    """decorator: task function returns list of Scenario -> list of finished dicts"""
    def wrapped(task):
        try:
            return [sc.finish() for sc in cover_paths(fn, task)]
        except D.HarnessCrash as e:
            if e.rc == 3:       # script error of the VM itself: a framework problem, not a finding
                raise
            # the real code crashed (assertion / signal) while executing a valid scenario: confirm with the native build
            import re, os, json, hashlib
            text = re.sub(r'^decisions .*\n', '', e.text)
            try:
                D.run(e.tu, text, native=True)
                native_crash = False
            except D.HarnessCrash as e2:
                native_crash = True
                err2 = e2.stderr
            if not native_crash:
                raise
            os.makedirs(O.REPLAY_DIR, exist_ok=True)
            body = {'kind': 'crash', 'property': task.get('prop', ''), 'obligation': task['name'] + ' :: library code aborts on a valid scenario',
                    'tu': O.tu_spec(e.tu), 'script': text, 'stderr': err2[-600:]}
            h = hashlib.sha256(json.dumps(body, sort_keys=True).encode()).hexdigest()[:12]
            path = os.path.join(O.REPLAY_DIR, 'crash-%s.json' % h)
            json.dump(body, open(path, 'w'), indent=1)
            return [{'scenario': task['name'], 'queries': 0, 'solver_s': 0, 'nodes': 0, 'path_len': 0,
                     'results': [{'name': body['obligation'], 'kind': 'crash', 'status': 'sat', 't': 0, 'confirmed': True, 'replay': path,
                                  'note': 'recording and native builds both abort: ' + err2[-300:].replace('\n', ' ')}]}]
    wrapped.__name__ = fn.__name__
    return wrapped


PATH_OB = 'recorded path is the only feasible one on the domain'


def with_alt_path(one, t, rounds=6):
    """one(t, values, suffix) -> [Scenario] builds and checks a single-path scenario from shadow values.  If its
    'path forced' obligation finds another feasible path (a data-dependent branch that the unchanged code does not have),
    the scenario is rebuilt on solver models of regions not covered so far (up to `rounds` times), so that a violation on
    such a path is reported with a replay.  Complete coverage is reported only if the solver proves it."""
    import z3
    scs = one(t, None)
    sc0 = scs[0]
    pf = [r for r in sc0.results if PATH_OB in r['name'] and r['status'] == 'sat' and r.get('model')]
    if not pf:
        return scs
    explored = [z3.And(sc0.path_formulas())]
    model = pf[0]['model']
    for k in range(rounds):
        pt = sc0.point_from_model(model)
        try:
            new = one(t, {kk: float(v) for kk, v in pt.items()}, ' (alternative path %d)' % (k + 1))
        except Exception as e:  # the alternative paths are a bonus; a failure there must not hide the first result
            sc0._rec('alternative path explored', 'explore', 'unknown', detail='rebuild failed: %r' % (e,))
            break
        scs += new
        explored.append(z3.And(new[0].path_formulas()))
        r = R.solve('cover', sc0.base(False) + [z3.Not(p) for p in explored], sc0.timeout)
        sc0.queries += 1
        if r.status == 'unsat':
            sc0._rec('the explored paths cover the domain', 'real', 'unsat', r.t, h=len(explored))
            break
        if r.status != 'sat':
            sc0._rec('the explored paths cover the domain', 'real', 'unknown', r.t, detail=r.detail)
            break
        model = r.model
    return scs
